// gofrag: translator T4.  Translates a configured list (targets.go) of small imperative integer
// functions and methods of /repo's working tree into Gallina, statement by statement, with the
// fixed-width integer semantics of coq/lib/GoInt.v (vocabulary: coq/lib/GoFrag.v) and with calls
// to math/checked mapped to the definitions GENERATED from math/checked by go2coq
// (VerifGen.Checked).  go/parser + go/ast only; gofrag carries its own small type checker for
// the fragment.
//
//	gofrag <repo> <Unit> <out.v>
//
// THE FRAGMENT
//
// Types: int32 int64 uint32 uint64, int (= int64) and uint (= uint64) (64-bit platform), bool,
// error (results only), struct types of the package all of whose fields are of these integer
// types or bool (they become Records), and the abstracted selectors of targets.go.
//
// Declarations: a function or a method.  A receiver whose struct type is a Record is the first
// parameter; when the method assigns to a field through a pointer receiver, the final receiver is
// part of the result: option (R * State), else option R.  None = run-time panic.  A receiver of
// any other struct type can only be used through abstracted selectors.
//
// Statements
//
//	x := e   var x T   var x T = e   x = e   x op= e   x++   x--   (x a local, a parameter or recv.Field)
//	                        -> let x := ... in ...  (the Gallina name of a Go variable is its Go name;
//	                           an assignment shadows it; a variable declared while a variable of the
//	                           same name is visible is renamed x_1, x_2 ...)
//	a, b := checked.F(x, y)  a, b = checked.F(x, y)   (a, b locals, fields or _ )
//	                        -> match VerifGen.Checked.F x y with None => None | Some (t'1, t'2) => ...
//	if [init;] c { } [else { } | else if ...]
//	                        -> native if / match; the statements after the if are emitted in every
//	                           branch that can fall through (duplication instead of join points)
//	return e...             -> Some (results[, receiver])
//	for _, x := range L { } L an abstracted list
//	                        -> range_loop (fun x state => ...) L state: the state is the tuple of the
//	                           variables declared outside the loop and assigned in its body; a return
//	                           in the body is Ret, the end of the body is Next
//	{ }                     nested blocks
//
// Expressions: identifiers, integer literals, true false, constants of the package and of the
// packages in constPkgs (read from the source, emitted by name), math.Max/Min{Int,Uint}{32,64},
// recv.Field and x.Field for a Record x, len(x) for an element of a "lens" list, conversions
// T(e) between the integer types (wrap at T), unary - + !, binary + - * (wrap at the operand
// type), / % (division by a non-zero constant: wrap (Z.quot ..); otherwise GoInt.gdiv/gmod, None
// when the divisor is 0), << >> by an unsigned or constant non-negative count (GoInt.gshl/gshr),
// & | ^ &^ are NOT in the fragment, comparisons, && || (lazy whenever the right operand can
// panic or is a shift).  Untyped constants are evaluated exactly and must be representable in
// the type they are converted to (as the Go compiler demands).  Both operands of a binary
// operation must have the same type after that conversion; otherwise the translator stops
// rather than guess a width.
//
// Errors: nil, a package-level sentinel  ErrX = errors.New("...")  of the package, and
// errors.Wrap / Wrapf / WithDetail / WithDetailf (E, literals and pure fragment expressions...)
// which keep the tag of E.  The sentinels mentioned by the unit form the Inductive <unit>_err.
//
// Anything else inside a configured function is a fatal error (exit 2) with its source position;
// a configured function that is missing is a fatal error too.  Nothing is skipped silently.
//
// Constants: every constant of a Consts unit's package whose value is an integer constant
// expression is emitted (Definition <pkg>_<Name> : Z); the others (floats, strings) are listed
// in skipped_consts.
package main

import (
	"bytes"
	"fmt"
	"go/ast"
	"go/parser"
	"go/printer"
	"go/token"
	"math/big"
	"os"
	"path/filepath"
	"sort"
	"strings"
)

// ------------------------------------------------------------------ types and values

type kind int

const (
	kInt kind = iota
	kBool
	kUntyped // untyped integer constant
	kRecord
	kLen  // an element of a "lens" list: only len(x) is defined
	kList // abstracted list
	kErr
)

type record struct {
	name   string
	fields []string
	ftypes []*gtype
}

type gtype struct {
	k    kind
	ity  string // I32 I64 U32 U64 for kInt
	rec  *record
	elem *gtype
}

var intTypes = map[string]string{"int32": "I32", "int64": "I64", "uint32": "U32", "uint64": "U64", "int": "I64", "uint": "U64"}

var (
	tBool    = &gtype{k: kBool}
	tUntyped = &gtype{k: kUntyped}
	tErr     = &gtype{k: kErr}
	tLen     = &gtype{k: kLen}
)

func tInt(ity string) *gtype { return &gtype{k: kInt, ity: ity} }

func (g *gtype) String() string {
	switch g.k {
	case kInt:
		return g.ity
	case kBool:
		return "bool"
	case kUntyped:
		return "untyped-int"
	case kRecord:
		return g.rec.name
	case kLen:
		return "[]byte(len)"
	case kList:
		return "[]" + g.elem.String()
	}
	return "error"
}

func same(a, b *gtype) bool {
	if a.k != b.k {
		return false
	}
	switch a.k {
	case kInt:
		return a.ity == b.ity
	case kRecord:
		return a.rec == b.rec
	case kList:
		return same(a.elem, b.elem)
	}
	return true
}

func two(n uint) *big.Int { return new(big.Int).Lsh(big.NewInt(1), n) }

func tyRange(ity string) (lo, hi *big.Int) {
	switch ity {
	case "I32":
		return new(big.Int).Neg(two(31)), new(big.Int).Sub(two(31), big.NewInt(1))
	case "I64":
		return new(big.Int).Neg(two(63)), new(big.Int).Sub(two(63), big.NewInt(1))
	case "U32":
		return big.NewInt(0), new(big.Int).Sub(two(32), big.NewInt(1))
	}
	return big.NewInt(0), new(big.Int).Sub(two(64), big.NewInt(1))
}

func fits(x *big.Int, ity string) bool {
	lo, hi := tyRange(ity)
	return x.Cmp(lo) >= 0 && x.Cmp(hi) <= 0
}

func unsigned(ity string) bool { return ity[0] == 'U' }

func coqType(g *gtype) string {
	switch g.k {
	case kInt, kLen:
		return "Z"
	case kBool:
		return "bool"
	case kRecord:
		return g.rec.name
	case kList:
		return "(list " + coqType(g.elem) + ")"
	}
	return "?"
}

func zlit(x *big.Int) string {
	if x.Sign() < 0 {
		return "(" + x.String() + ")"
	}
	return x.String()
}

// a translated expression.  pure: term has type Z / bool and cannot panic;
// otherwise term has type option Z / option bool.
type val struct {
	term string
	pure bool
	ty   *gtype
	cst  *big.Int // value when the expression is an integer constant expression
}

type constant struct {
	name string // Go name
	coq  string // Gallina name
	ty   *gtype // kInt or kUntyped
	v    *big.Int
}

// ------------------------------------------------------------------ packages

type pkg struct {
	dir     string
	name    string
	fset    *token.FileSet
	files   map[string]*ast.File // path relative to repo
	consts  map[string]*constant
	corder  []string
	skipped []string
	structs map[string]*ast.StructType
	vars    map[string]*ast.ValueSpec
	sent    map[string]bool // sentinel errors  ErrX = errors.New(...)
	sorder  []string
}

var repo string
var pkgs = map[string]*pkg{}

func die(format string, a ...interface{}) {
	fmt.Fprintf(os.Stderr, "gofrag: "+format+"\n", a...)
	os.Exit(2)
}

func loadPkg(dir string) *pkg {
	if p, ok := pkgs[dir]; ok {
		return p
	}
	p := &pkg{dir: dir, fset: token.NewFileSet(), files: map[string]*ast.File{}, consts: map[string]*constant{},
		structs: map[string]*ast.StructType{}, vars: map[string]*ast.ValueSpec{}, sent: map[string]bool{}}
	pkgs[dir] = p
	names, err := filepath.Glob(filepath.Join(repo, dir, "*.go"))
	if err != nil || len(names) == 0 {
		die("no Go files in %s", filepath.Join(repo, dir))
	}
	sort.Strings(names)
	for _, fn := range names {
		if strings.HasSuffix(fn, "_test.go") || strings.HasSuffix(fn, "_verif.go") {
			continue
		}
		f, err := parser.ParseFile(p.fset, fn, nil, 0)
		if err != nil {
			die("%v", err)
		}
		rel, _ := filepath.Rel(repo, fn)
		p.files[rel] = f
		p.name = f.Name.Name
	}
	var rels []string
	for r := range p.files {
		rels = append(rels, r)
	}
	sort.Strings(rels)
	for _, r := range rels {
		for _, d := range p.files[r].Decls {
			gd, ok := d.(*ast.GenDecl)
			if !ok {
				continue
			}
			for _, s := range gd.Specs {
				switch x := s.(type) {
				case *ast.TypeSpec:
					if st, ok := x.Type.(*ast.StructType); ok {
						p.structs[x.Name.Name] = st
					}
				case *ast.ValueSpec:
					if gd.Tok == token.VAR {
						for i, n := range x.Names {
							p.vars[n.Name] = x
							if i < len(x.Values) && isErrorsNew(x.Values[i]) {
								p.sent[n.Name] = true
								p.sorder = append(p.sorder, n.Name)
							}
						}
					}
				}
			}
		}
	}
	// constants, in source order (a constant may refer to earlier ones)
	for _, r := range rels {
		for _, d := range p.files[r].Decls {
			gd, ok := d.(*ast.GenDecl)
			if !ok || gd.Tok != token.CONST {
				continue
			}
			for _, s := range gd.Specs {
				vs := s.(*ast.ValueSpec)
				for i, n := range vs.Names {
					if n.Name == "_" {
						continue
					}
					if i >= len(vs.Values) {
						p.skipped = append(p.skipped, n.Name) // iota-style repetition
						continue
					}
					c := p.evalConst(vs.Type, vs.Values[i])
					if c == nil {
						p.skipped = append(p.skipped, n.Name)
						continue
					}
					c.name = n.Name
					c.coq = p.name + "_" + n.Name
					p.consts[n.Name] = c
					p.corder = append(p.corder, n.Name)
				}
			}
		}
	}
	return p
}

func isErrorsNew(e ast.Expr) bool {
	c, ok := e.(*ast.CallExpr)
	if !ok {
		return false
	}
	s, ok := c.Fun.(*ast.SelectorExpr)
	if !ok {
		return false
	}
	id, ok := s.X.(*ast.Ident)
	return ok && id.Name == "errors" && s.Sel.Name == "New"
}

var mathConsts = map[string]*big.Int{
	"MaxInt64":  new(big.Int).Sub(two(63), big.NewInt(1)),
	"MinInt64":  new(big.Int).Neg(two(63)),
	"MaxInt32":  new(big.Int).Sub(two(31), big.NewInt(1)),
	"MinInt32":  new(big.Int).Neg(two(31)),
	"MaxUint64": new(big.Int).Sub(two(64), big.NewInt(1)),
	"MaxUint32": new(big.Int).Sub(two(32), big.NewInt(1)),
}

// evalConst: the value of an integer constant expression, nil when it is not one
// (float, string, iota, unknown name): such constants are listed as skipped.
func (p *pkg) evalConst(ty ast.Expr, e ast.Expr) *constant {
	c := p.constExpr(e)
	if c == nil {
		return nil
	}
	if ty != nil {
		id, ok := ty.(*ast.Ident)
		if !ok || intTypes[id.Name] == "" {
			return nil
		}
		if !fits(c.v, intTypes[id.Name]) {
			die("%s: constant %s overflows %s", p.fset.Position(e.Pos()), c.v, id.Name)
		}
		c.ty = tInt(intTypes[id.Name])
	}
	return c
}

func (p *pkg) constExpr(e ast.Expr) *constant {
	switch x := e.(type) {
	case *ast.ParenExpr:
		return p.constExpr(x.X)
	case *ast.BasicLit:
		if x.Kind != token.INT {
			return nil
		}
		v, ok := new(big.Int).SetString(strings.ReplaceAll(x.Value, "_", ""), 0)
		if !ok {
			return nil
		}
		return &constant{ty: tUntyped, v: v}
	case *ast.Ident:
		if c, ok := p.consts[x.Name]; ok {
			return &constant{ty: c.ty, v: c.v}
		}
		return nil
	case *ast.SelectorExpr:
		if id, ok := x.X.(*ast.Ident); ok && id.Name == "math" {
			if v, ok := mathConsts[x.Sel.Name]; ok {
				return &constant{ty: tUntyped, v: v}
			}
		}
		return nil
	case *ast.CallExpr:
		id, ok := x.Fun.(*ast.Ident)
		if !ok || intTypes[id.Name] == "" || len(x.Args) != 1 {
			return nil
		}
		a := p.constExpr(x.Args[0])
		if a == nil {
			return nil
		}
		if !fits(a.v, intTypes[id.Name]) {
			die("%s: constant %s overflows %s", p.fset.Position(e.Pos()), a.v, id.Name)
		}
		return &constant{ty: tInt(intTypes[id.Name]), v: a.v}
	case *ast.UnaryExpr:
		a := p.constExpr(x.X)
		if a == nil {
			return nil
		}
		switch x.Op {
		case token.SUB:
			return p.constResult(e, a.ty, new(big.Int).Neg(a.v))
		case token.ADD:
			return a
		}
		return nil
	case *ast.BinaryExpr:
		a, b := p.constExpr(x.X), p.constExpr(x.Y)
		if a == nil || b == nil {
			return nil
		}
		ty := a.ty
		if ty.k == kUntyped {
			ty = b.ty
		} else if b.ty.k != kUntyped && !same(a.ty, b.ty) {
			die("%s: mismatched constant types", p.fset.Position(e.Pos()))
		}
		switch x.Op {
		case token.ADD:
			return p.constResult(e, ty, new(big.Int).Add(a.v, b.v))
		case token.SUB:
			return p.constResult(e, ty, new(big.Int).Sub(a.v, b.v))
		case token.MUL:
			return p.constResult(e, ty, new(big.Int).Mul(a.v, b.v))
		case token.QUO:
			if b.v.Sign() == 0 {
				die("%s: constant division by zero", p.fset.Position(e.Pos()))
			}
			return p.constResult(e, ty, new(big.Int).Quo(a.v, b.v))
		case token.REM:
			if b.v.Sign() == 0 {
				die("%s: constant division by zero", p.fset.Position(e.Pos()))
			}
			return p.constResult(e, ty, new(big.Int).Rem(a.v, b.v))
		}
		return nil
	}
	return nil
}

func (p *pkg) constResult(e ast.Expr, ty *gtype, v *big.Int) *constant {
	if ty.k == kInt && !fits(v, ty.ity) {
		die("%s: constant expression overflows %s", p.fset.Position(e.Pos()), ty)
	}
	return &constant{ty: ty, v: v}
}

// the integer type named by a type expression, nil if none
func typeOf(e ast.Expr) *gtype {
	if id, ok := e.(*ast.Ident); ok {
		if it := intTypes[id.Name]; it != "" {
			return tInt(it)
		}
		if id.Name == "bool" {
			return tBool
		}
		if id.Name == "error" {
			return tErr
		}
	}
	return nil
}

// ------------------------------------------------------------------ the unit being emitted

type emitter struct {
	u        *unit
	p        *pkg
	records  map[string]*record
	rorder   []string
	errs     map[string]bool // sentinels mentioned
	checked  map[string][2]string
	reserved map[string]bool
	defs     []string // emitted definitions of functions
	sigs     []string
}

func (em *emitter) errType() string { return strings.ToLower(em.u.Name) + "_err" }

// recordOf: the Record for struct type name, nil when the struct has a field outside the fragment
func (em *emitter) recordOf(name string) *record {
	if r, ok := em.records[name]; ok {
		return r
	}
	st, ok := em.p.structs[name]
	if !ok {
		return nil
	}
	r := &record{name: name}
	for _, f := range st.Fields.List {
		ft := typeOf(f.Type)
		if ft == nil || ft.k == kErr || len(f.Names) == 0 {
			return nil
		}
		for _, n := range f.Names {
			r.fields = append(r.fields, n.Name)
			r.ftypes = append(r.ftypes, ft)
		}
	}
	if len(r.fields) == 0 {
		return nil
	}
	em.records[name] = r
	em.rorder = append(em.rorder, name)
	return r
}

// ------------------------------------------------------------------ function translation

type variable struct {
	coq string
	ty  *gtype
}

type tr struct {
	em      *emitter
	p       *pkg
	fn      *ast.FuncDecl
	tg      *target
	scopes  []map[string]*variable
	ntmp    int
	recv    string   // receiver variable name ("" if none)
	recvRec *record  // non-nil: the receiver is a Record
	withSt  bool     // result carries the final receiver
	results []*gtype // Go result types
	abs     map[string]*variable
	wrapRet func(string) string
}

func (t *tr) fail(n ast.Node, format string, a ...interface{}) {
	fmt.Fprintf(os.Stderr, "gofrag: %s: outside fragment (%s): %s\n", t.p.fset.Position(n.Pos()), t.fn.Name.Name, fmt.Sprintf(format, a...))
	os.Exit(2)
}

func (t *tr) src(n ast.Node) string {
	var b bytes.Buffer
	printer.Fprint(&b, t.p.fset, n)
	return b.String()
}

func (t *tr) tmp() string { t.ntmp++; return fmt.Sprintf("t'%d", t.ntmp) }

func (t *tr) push() { t.scopes = append(t.scopes, map[string]*variable{}) }
func (t *tr) pop()  { t.scopes = t.scopes[:len(t.scopes)-1] }

func (t *tr) lookup(name string) *variable {
	for i := len(t.scopes) - 1; i >= 0; i-- {
		if v, ok := t.scopes[i][name]; ok {
			return v
		}
	}
	return nil
}

func (t *tr) coqNameTaken(c string) bool {
	for _, s := range t.scopes {
		for _, v := range s {
			if v.coq == c {
				return true
			}
		}
	}
	for _, v := range t.abs {
		if v.coq == c {
			return true
		}
	}
	return false
}

func (t *tr) declare(n ast.Node, name string, ty *gtype) *variable {
	if name == "_" {
		t.fail(n, "blank identifier declared")
	}
	c := name
	for i := 1; t.coqNameTaken(c); i++ {
		c = fmt.Sprintf("%s_%d", name, i)
	}
	if t.em.reserved[c] || strings.Contains(c, "'") {
		t.fail(n, "identifier %s clashes with the generated vocabulary", c)
	}
	v := &variable{coq: c, ty: ty}
	t.scopes[len(t.scopes)-1][name] = v
	return v
}

// atDepth: a continuation that runs f with the scope stack cut back to its current depth
// (and leaves the stack as it found it): the statements after an if / a block / a loop.
func (t *tr) atDepth(f func() string) func() string {
	d := len(t.scopes)
	return func() string {
		saved := t.scopes
		cp := make([]map[string]*variable, d)
		for i := 0; i < d; i++ {
			cp[i] = map[string]*variable{}
			for k, v := range saved[i] {
				cp[i][k] = v
			}
		}
		t.scopes = cp
		r := f()
		t.scopes = saved
		return r
	}
}

// ---- expressions

func opt(v val) string {
	if v.pure {
		return "Some " + paren(v.term)
	}
	return v.term
}

func paren(s string) string {
	if strings.ContainsAny(s, " \n") && !(strings.HasPrefix(s, "(") && balanced(s)) {
		return "(" + s + ")"
	}
	return s
}

// balanced: s = "(...)" where the first parenthesis closes at the end
func balanced(s string) bool {
	d := 0
	for i, c := range s {
		if c == '(' {
			d++
		} else if c == ')' {
			d--
			if d == 0 && i != len(s)-1 {
				return false
			}
		}
	}
	return d == 0
}

// lift: apply the pure operation f to the values vs (binding the ones that can panic)
func (t *tr) lift(vs []val, ty *gtype, f func([]string) string) val {
	return t.liftG(vs, ty, f, true)
}

// liftOpt: f yields an option term
func (t *tr) liftOpt(vs []val, ty *gtype, f func([]string) string) val {
	return t.liftG(vs, ty, f, false)
}

func (t *tr) liftG(vs []val, ty *gtype, f func([]string) string, fpure bool) val {
	terms := make([]string, len(vs))
	allpure := true
	var pre, post string
	for i, v := range vs {
		if v.pure {
			terms[i] = paren(v.term)
		} else {
			allpure = false
			n := t.tmp()
			pre += "match " + v.term + " with None => None | Some " + n + " => "
			post += " end"
			terms[i] = n
		}
	}
	body := f(terms)
	if allpure {
		return val{term: body, pure: fpure, ty: ty}
	}
	if fpure {
		body = "Some " + paren(body)
	}
	return val{term: "(" + pre + body + post + ")", pure: false, ty: ty}
}

// conv: convert an untyped constant to type ty (range checked); typed values must already have it
func (t *tr) conv(n ast.Node, v val, ty *gtype) val {
	if v.ty.k == kUntyped {
		if ty.k != kInt {
			t.fail(n, "untyped constant used at type %s", ty)
		}
		if !fits(v.cst, ty.ity) {
			t.fail(n, "constant %s overflows %s", v.cst, ty)
		}
		return val{term: v.term, pure: true, ty: ty, cst: v.cst}
	}
	if !same(v.ty, ty) {
		t.fail(n, "type mismatch: %s used as %s", v.ty, ty)
	}
	return v
}

// unify the operand types of a binary operation
func (t *tr) unify(n ast.Node, x, y val) (val, val, *gtype) {
	switch {
	case x.ty.k == kUntyped && y.ty.k == kUntyped:
		return x, y, tUntyped
	case x.ty.k == kUntyped:
		return t.conv(n, x, y.ty), y, y.ty
	case y.ty.k == kUntyped:
		return x, t.conv(n, y, x.ty), x.ty
	}
	if !same(x.ty, y.ty) {
		t.fail(n, "mismatched operand types %s and %s", x.ty, y.ty)
	}
	return x, y, x.ty
}

func (t *tr) absLookup(e ast.Expr) *variable {
	if v, ok := t.abs[t.src(e)]; ok {
		return v
	}
	return nil
}

func (t *tr) expr(e ast.Expr) val {
	switch x := e.(type) {
	case *ast.ParenExpr:
		return t.expr(x.X)
	case *ast.BasicLit:
		if x.Kind != token.INT {
			t.fail(e, "non-integer literal")
		}
		v, ok := new(big.Int).SetString(strings.ReplaceAll(x.Value, "_", ""), 0)
		if !ok {
			t.fail(e, "integer literal %s", x.Value)
		}
		return val{term: zlit(v), pure: true, ty: tUntyped, cst: v}
	case *ast.Ident:
		if v := t.lookup(x.Name); v != nil {
			if v.ty.k == kList {
				t.fail(e, "list value used as an expression")
			}
			return val{term: v.coq, pure: true, ty: v.ty}
		}
		switch x.Name {
		case "true", "false":
			return val{term: x.Name, pure: true, ty: tBool}
		}
		if c, ok := t.p.consts[x.Name]; ok {
			return val{term: t.constRef(e, t.p, c), pure: true, ty: c.ty, cst: c.v}
		}
		t.fail(e, "unknown identifier %s", x.Name)
	case *ast.SelectorExpr:
		if v := t.absLookup(e); v != nil {
			if v.ty.k == kList {
				t.fail(e, "abstracted list %s used as an expression", t.src(e))
			}
			return val{term: v.coq, pure: true, ty: v.ty}
		}
		if id, ok := x.X.(*ast.Ident); ok {
			if v := t.lookup(id.Name); v != nil {
				if v.ty.k != kRecord {
					t.fail(e, "field of a non-record value %s", id.Name)
				}
				for i, f := range v.ty.rec.fields {
					if f == x.Sel.Name {
						return val{term: v.ty.rec.name + "_" + f + " " + v.coq, pure: true, ty: v.ty.rec.ftypes[i]}
					}
				}
				t.fail(e, "unknown field %s", x.Sel.Name)
			}
			if id.Name == "math" {
				if c, ok := mathConsts[x.Sel.Name]; ok {
					return val{term: zlit(c), pure: true, ty: tUntyped, cst: c}
				}
				t.fail(e, "math.%s", x.Sel.Name)
			}
			if cp, ok := constPkgs[id.Name]; ok && t.imports(id.Name) {
				q := loadPkg(cp[0])
				if c, ok := q.consts[x.Sel.Name]; ok {
					return val{term: t.constRef(e, q, c), pure: true, ty: c.ty, cst: c.v}
				}
				t.fail(e, "%s.%s is not an integer constant", id.Name, x.Sel.Name)
			}
		}
		t.fail(e, "selector %s", t.src(e))
	case *ast.UnaryExpr:
		switch x.Op {
		case token.SUB:
			a := t.expr(x.X)
			if a.ty.k == kUntyped {
				v := new(big.Int).Neg(a.cst)
				return val{term: zlit(v), pure: true, ty: tUntyped, cst: v}
			}
			if a.ty.k != kInt {
				t.fail(e, "unary - on %s", a.ty)
			}
			r := t.lift([]val{a}, a.ty, func(s []string) string { return fmt.Sprintf("wrap %s (- %s)", a.ty.ity, s[0]) })
			if a.cst != nil {
				r.cst = new(big.Int).Neg(a.cst)
				if !fits(r.cst, a.ty.ity) {
					t.fail(e, "constant overflow")
				}
			}
			return r
		case token.ADD:
			a := t.expr(x.X)
			if a.ty.k != kInt && a.ty.k != kUntyped {
				t.fail(e, "unary + on %s", a.ty)
			}
			return a
		case token.NOT:
			a := t.expr(x.X)
			if a.ty.k != kBool {
				t.fail(e, "! on %s", a.ty)
			}
			return t.lift([]val{a}, tBool, func(s []string) string { return "negb " + s[0] })
		}
		t.fail(e, "unary %s", x.Op)
	case *ast.CallExpr:
		return t.call(x)
	case *ast.BinaryExpr:
		return t.binary(x)
	}
	t.fail(e, "expression %T", e)
	return val{}
}

func (t *tr) imports(pkgName string) bool {
	cp := constPkgs[pkgName]
	if t.em.u.Name == cp[1] {
		return true
	}
	for _, i := range t.em.u.Imports {
		if i == cp[1] {
			return true
		}
	}
	return false
}

func (t *tr) constRef(n ast.Node, q *pkg, c *constant) string { return c.coq }

func (t *tr) call(x *ast.CallExpr) val {
	if id, ok := x.Fun.(*ast.Ident); ok {
		if it := intTypes[id.Name]; it != "" && t.lookup(id.Name) == nil {
			if len(x.Args) != 1 {
				t.fail(x, "conversion arity")
			}
			a := t.expr(x.Args[0])
			to := tInt(it)
			switch a.ty.k {
			case kUntyped:
				return t.conv(x, a, to)
			case kInt:
				if a.ty.ity == it {
					return a
				}
				r := t.lift([]val{a}, to, func(s []string) string { return fmt.Sprintf("wrap %s %s", it, s[0]) })
				if a.cst != nil {
					// a typed constant converted to another type must be representable (Go spec)
					if !fits(a.cst, it) {
						t.fail(x, "constant %s overflows %s", a.cst, id.Name)
					}
					r.cst = a.cst
				}
				return r
			}
			t.fail(x, "conversion of %s to %s", a.ty, id.Name)
		}
		if id.Name == "len" && t.lookup("len") == nil && len(x.Args) == 1 {
			a := t.expr(x.Args[0])
			if a.ty.k != kLen {
				t.fail(x, "len of %s", a.ty)
			}
			return val{term: a.term, pure: true, ty: tInt("I64")}
		}
	}
	t.fail(x, "call %s", t.src(x.Fun))
	return val{}
}

var arithOps = map[token.Token]string{token.ADD: "+", token.SUB: "-", token.MUL: "*"}
var cmpOps = map[token.Token]string{token.GTR: "Z.gtb", token.LSS: "Z.ltb", token.GEQ: "Z.geb", token.LEQ: "Z.leb", token.EQL: "Z.eqb", token.NEQ: "Z.eqb"}

func (t *tr) binary(x *ast.BinaryExpr) val {
	switch x.Op {
	case token.LAND, token.LOR:
		a, b := t.expr(x.X), t.expr(x.Y)
		if a.ty.k != kBool || b.ty.k != kBool {
			t.fail(x, "%s on %s, %s", x.Op, a.ty, b.ty)
		}
		if b.pure {
			f := "andb"
			if x.Op == token.LOR {
				f = "orb"
			}
			return t.lift([]val{a, b}, tBool, func(s []string) string { return f + " " + s[0] + " " + s[1] })
		}
		// the right operand can panic (or is costly): evaluate it only when the left one asks for it
		short, cont := "false", "true"
		if x.Op == token.LOR {
			short, cont = "true", "false"
		}
		return val{term: fmt.Sprintf("(match %s with None => None | Some %s => Some %s | Some %s => %s end)", opt(a), short, short, cont, b.term), pure: false, ty: tBool}
	}
	a, b := t.expr(x.X), t.expr(x.Y)
	if x.Op == token.SHL || x.Op == token.SHR {
		return t.shift(x, a, b)
	}
	if f, ok := cmpOps[x.Op]; ok {
		if a.ty.k == kBool && b.ty.k == kBool && (x.Op == token.EQL || x.Op == token.NEQ) {
			r := t.lift([]val{a, b}, tBool, func(s []string) string { return "Bool.eqb " + s[0] + " " + s[1] })
			if x.Op == token.NEQ {
				r = t.lift([]val{r}, tBool, func(s []string) string { return "negb " + s[0] })
			}
			return r
		}
		a, b, ty := t.unify(x, a, b)
		if ty.k != kInt && ty.k != kUntyped {
			t.fail(x, "comparison of %s", ty)
		}
		r := t.lift([]val{a, b}, tBool, func(s []string) string { return f + " " + s[0] + " " + s[1] })
		if x.Op == token.NEQ {
			r = t.lift([]val{r}, tBool, func(s []string) string { return "negb " + s[0] })
		}
		return r
	}
	a, b, ty := t.unify(x, a, b)
	if ty.k != kInt && ty.k != kUntyped {
		t.fail(x, "arithmetic on %s", ty)
	}
	var cst *big.Int
	if a.cst != nil && b.cst != nil {
		switch x.Op {
		case token.ADD:
			cst = new(big.Int).Add(a.cst, b.cst)
		case token.SUB:
			cst = new(big.Int).Sub(a.cst, b.cst)
		case token.MUL:
			cst = new(big.Int).Mul(a.cst, b.cst)
		case token.QUO, token.REM:
			if b.cst.Sign() == 0 {
				t.fail(x, "constant division by zero")
			}
			if x.Op == token.QUO {
				cst = new(big.Int).Quo(a.cst, b.cst)
			} else {
				cst = new(big.Int).Rem(a.cst, b.cst)
			}
		default:
			t.fail(x, "binary %s", x.Op)
		}
		if ty.k == kUntyped {
			return val{term: zlit(cst), pure: true, ty: tUntyped, cst: cst}
		}
		if !fits(cst, ty.ity) {
			t.fail(x, "constant expression overflows %s", ty)
		}
	}
	if op, ok := arithOps[x.Op]; ok {
		r := t.lift([]val{a, b}, ty, func(s []string) string { return fmt.Sprintf("wrap %s (%s %s %s)", ty.ity, s[0], op, s[1]) })
		r.cst = cst
		return r
	}
	if x.Op == token.QUO || x.Op == token.REM {
		zf, gf := "Z.quot", "gdiv"
		if x.Op == token.REM {
			zf, gf = "Z.rem", "gmod"
		}
		if b.cst != nil {
			if b.cst.Sign() == 0 {
				t.fail(x, "division by the constant zero")
			}
			r := t.lift([]val{a, b}, ty, func(s []string) string { return fmt.Sprintf("wrap %s (%s %s %s)", ty.ity, zf, s[0], s[1]) })
			r.cst = cst
			return r
		}
		return t.liftOpt([]val{a, b}, ty, func(s []string) string { return fmt.Sprintf("%s %s %s %s", gf, ty.ity, s[0], s[1]) })
	}
	t.fail(x, "binary %s", x.Op)
	return val{}
}

// shifts: the count must be unsigned or a non-negative constant; the result is never "pure"
// (2^n is evaluated only when the shift is reached)
func (t *tr) shift(x *ast.BinaryExpr, a, b val) val {
	if a.ty.k != kInt {
		t.fail(x, "shift of %s", a.ty)
	}
	switch {
	case b.cst != nil:
		if b.cst.Sign() < 0 || b.cst.BitLen() > 16 {
			t.fail(x, "shift count %s", b.cst)
		}
	case b.ty.k == kInt && unsigned(b.ty.ity):
	default:
		t.fail(x, "shift count of type %s", b.ty)
	}
	f := "gshl"
	if x.Op == token.SHR {
		f = "gshr"
	}
	return t.liftOpt([]val{a, b}, a.ty, func(s []string) string { return fmt.Sprintf("%s %s %s %s", f, a.ty.ity, s[0], s[1]) })
}

// ---- error expressions: the tag of a returned error

func (t *tr) errTag(e ast.Expr) string {
	switch x := e.(type) {
	case *ast.ParenExpr:
		return t.errTag(x.X)
	case *ast.Ident:
		if t.lookup(x.Name) != nil {
			t.fail(e, "error variable %s", x.Name)
		}
		if x.Name == "nil" {
			return "None"
		}
		if t.p.sent[x.Name] {
			t.em.errs[x.Name] = true
			return "Some " + x.Name
		}
		t.fail(e, "%s is not a sentinel error (errors.New) of the package", x.Name)
	case *ast.CallExpr:
		if s, ok := x.Fun.(*ast.SelectorExpr); ok {
			if id, ok := s.X.(*ast.Ident); ok && id.Name == "errors" && t.lookup("errors") == nil {
				switch s.Sel.Name {
				case "Wrap", "Wrapf", "WithDetail", "WithDetailf":
					if len(x.Args) < 1 {
						t.fail(e, "errors.%s without argument", s.Sel.Name)
					}
					tag := t.errTag(x.Args[0])
					if tag == "None" {
						t.fail(e, "errors.%s(nil, ...)", s.Sel.Name)
					}
					for _, a := range x.Args[1:] {
						if l, ok := a.(*ast.BasicLit); ok && l.Kind == token.STRING {
							continue
						}
						if v := t.expr(a); !v.pure {
							t.fail(a, "argument of errors.%s can panic", s.Sel.Name)
						}
					}
					return tag
				}
			}
		}
	}
	t.fail(e, "error expression %s", t.src(e))
	return ""
}

// ---- statements

func (t *tr) stateTerm() string { return t.lookup(t.recv).coq }

func (t *tr) ret(r *ast.ReturnStmt) string {
	if len(r.Results) != len(t.results) {
		t.fail(r, "return with %d values, the function has %d results", len(r.Results), len(t.results))
	}
	var vs []val
	for i, e := range r.Results {
		if t.results[i].k == kErr {
			vs = append(vs, val{term: t.errTag(e), pure: true, ty: tErr})
			continue
		}
		vs = append(vs, t.conv(e, t.expr(e), t.results[i]))
	}
	v := t.lift(vs, nil, func(s []string) string {
		parts := append([]string{}, s...)
		if t.withSt {
			parts = append(parts, t.stateTerm())
		}
		if len(parts) == 0 {
			return "tt"
		}
		if len(parts) == 1 {
			return parts[0]
		}
		return "(" + strings.Join(parts, ", ") + ")"
	})
	if v.pure {
		return t.wrapRet(v.term)
	}
	n := t.tmp()
	return "match " + v.term + " with None => None | Some " + n + " => " + t.wrapRet(n) + " end"
}

// assignTo: code prefix that assigns the pure term rhs (of type ty) to the lvalue lhs
func (t *tr) assignTo(lhs ast.Expr, rhs string, ty *gtype, define bool) string {
	switch x := lhs.(type) {
	case *ast.Ident:
		if x.Name == "_" {
			return ""
		}
		if define {
			if ty.k == kUntyped {
				ty = tInt("I64") // the default type of an untyped integer constant is int
			}
			if v, ok := t.scopes[len(t.scopes)-1][x.Name]; ok {
				// redeclaration in a := with several names assigns to the existing variable
				if !same(v.ty, ty) {
					t.fail(lhs, "type mismatch in redeclaration of %s", x.Name)
				}
				return "let " + v.coq + " := " + rhs + " in\n"
			}
			v := t.declare(lhs, x.Name, ty)
			return "let " + v.coq + " := " + rhs + " in\n"
		}
		v := t.lookup(x.Name)
		if v == nil {
			t.fail(lhs, "assignment to unknown variable %s", x.Name)
		}
		if !same(v.ty, ty) {
			t.fail(lhs, "assignment of %s to %s %s", ty, v.ty, x.Name)
		}
		return "let " + v.coq + " := " + rhs + " in\n"
	case *ast.SelectorExpr:
		if define {
			t.fail(lhs, "field in :=")
		}
		id, ok := x.X.(*ast.Ident)
		if !ok {
			t.fail(lhs, "assignment target")
		}
		v := t.lookup(id.Name)
		if v == nil || v.ty.k != kRecord {
			t.fail(lhs, "assignment to a field of %s", id.Name)
		}
		if id.Name != t.recv {
			// a local struct value could be handled the same way, but a copy of a struct is
			// not in the fragment: keep to the receiver
			t.fail(lhs, "field assignment on a value other than the receiver")
		}
		for i, f := range v.ty.rec.fields {
			if f == x.Sel.Name {
				if !same(v.ty.rec.ftypes[i], ty) {
					t.fail(lhs, "assignment of %s to field %s %s", ty, f, v.ty.rec.ftypes[i])
				}
				return fmt.Sprintf("let %s := %s_set_%s %s %s in\n", v.coq, v.ty.rec.name, f, v.coq, paren(rhs))
			}
		}
		t.fail(lhs, "unknown field %s", x.Sel.Name)
	}
	t.fail(lhs, "assignment target %T", lhs)
	return ""
}

func (t *tr) lhsType(lhs ast.Expr) *gtype {
	switch x := lhs.(type) {
	case *ast.Ident:
		if v := t.lookup(x.Name); v != nil {
			return v.ty
		}
	case *ast.SelectorExpr:
		v := t.expr(lhs)
		return v.ty
	}
	t.fail(lhs, "assignment target")
	return nil
}

// bindStmt: evaluate v, give its value to f (a pure term), wrap the binding around f's code
func bindStmt(t *tr, v val, f func(string) string) string {
	if v.pure {
		return f(v.term)
	}
	n := t.tmp()
	return "match " + v.term + " with None => None | Some " + n + " =>\n" + f(n) + " end"
}

func (t *tr) checkedCall(e ast.Expr) (string, string, []ast.Expr, bool) {
	c, ok := e.(*ast.CallExpr)
	if !ok {
		return "", "", nil, false
	}
	s, ok := c.Fun.(*ast.SelectorExpr)
	if !ok {
		return "", "", nil, false
	}
	id, ok := s.X.(*ast.Ident)
	if !ok || id.Name != "checked" || t.lookup("checked") != nil {
		return "", "", nil, false
	}
	sig, ok := t.em.checked[s.Sel.Name]
	if !ok {
		t.fail(e, "checked.%s is not a function translated by go2coq", s.Sel.Name)
	}
	if fmt.Sprint(len(c.Args)) != sig[1] {
		t.fail(e, "checked.%s arity", s.Sel.Name)
	}
	return s.Sel.Name, sig[0], c.Args, true
}

// stmt: one statement followed by the continuation k
func (t *tr) stmt(s ast.Stmt, k func() string) string {
	switch x := s.(type) {
	case *ast.EmptyStmt:
		return k()
	case *ast.BlockStmt:
		return t.block(x, k)
	case *ast.ReturnStmt:
		return t.ret(x)
	case *ast.DeclStmt:
		gd, ok := x.Decl.(*ast.GenDecl)
		if !ok || gd.Tok != token.VAR {
			t.fail(s, "declaration")
		}
		return t.varSpecs(gd.Specs, k)
	case *ast.IncDecStmt:
		ty := t.lhsType(x.X)
		if ty.k != kInt {
			t.fail(s, "%s on %s", x.Tok, ty)
		}
		cur := t.expr(x.X)
		op := "+"
		if x.Tok == token.DEC {
			op = "-"
		}
		return t.assignTo(x.X, fmt.Sprintf("wrap %s (%s %s 1)", ty.ity, paren(cur.term), op), ty, false) + k()
	case *ast.AssignStmt:
		return t.assign(x, k)
	case *ast.IfStmt:
		t.push()
		var code string
		body := func() string {
			c := t.expr(x.Cond)
			if c.ty.k != kBool {
				t.fail(x.Cond, "condition of type %s", c.ty)
			}
			thenCode := t.block(x.Body, k)
			var elseCode string
			switch e := x.Else.(type) {
			case nil:
				elseCode = k()
			case *ast.BlockStmt:
				elseCode = t.block(e, k)
			case *ast.IfStmt:
				elseCode = t.stmt(e, k)
			default:
				t.fail(x, "else")
			}
			if c.pure {
				return "if " + c.term + " then\n" + thenCode + "\nelse\n" + elseCode
			}
			return "match " + c.term + " with\n| None => None\n| Some true =>\n" + thenCode + "\n| Some false =>\n" + elseCode + "\nend"
		}
		if x.Init != nil {
			code = t.stmt(x.Init, body)
		} else {
			code = body()
		}
		t.pop()
		return "(" + code + ")"
	case *ast.RangeStmt:
		return t.rangeLoop(x, k)
	}
	t.fail(s, "statement %T", s)
	return ""
}

func (t *tr) varSpecs(specs []ast.Spec, k func() string) string {
	if len(specs) == 0 {
		return k()
	}
	vs := specs[0].(*ast.ValueSpec)
	rest := func() string { return t.varSpecs(specs[1:], k) }
	if len(vs.Names) != 1 || len(vs.Values) > 1 {
		t.fail(vs, "var with several names")
	}
	var ty *gtype
	if vs.Type != nil {
		ty = typeOf(vs.Type)
		if ty == nil || ty.k == kErr {
			t.fail(vs, "var of type %s", t.src(vs.Type))
		}
	}
	if len(vs.Values) == 0 {
		zero := "0"
		if ty.k == kBool {
			zero = "false"
		}
		v := t.declare(vs, vs.Names[0].Name, ty)
		return "let " + v.coq + " := " + zero + " in\n" + rest()
	}
	r := t.expr(vs.Values[0])
	if ty != nil {
		r = t.conv(vs, r, ty)
	}
	return bindStmt(t, r, func(p string) string {
		return t.assignTo(vs.Names[0], p, r.ty, true) + rest()
	})
}

func (t *tr) assign(x *ast.AssignStmt, k func() string) string {
	define := x.Tok == token.DEFINE
	// a, b [:]= checked.F(...)
	if len(x.Lhs) == 2 && len(x.Rhs) == 1 {
		name, ity, args, ok := t.checkedCall(x.Rhs[0])
		if !ok {
			t.fail(x, "tuple assignment from something other than math/checked")
		}
		if x.Tok != token.DEFINE && x.Tok != token.ASSIGN {
			t.fail(x, "tuple %s", x.Tok)
		}
		var vs []val
		for _, a := range args {
			vs = append(vs, t.conv(a, t.expr(a), tInt(ity)))
		}
		call := t.liftOpt(vs, nil, func(s []string) string { return name + " " + strings.Join(s, " ") })
		n1, n2 := t.tmp(), t.tmp()
		if define {
			fresh := false
			for _, l := range x.Lhs {
				id, ok := l.(*ast.Ident)
				if !ok {
					t.fail(l, "non-identifier in :=")
				}
				if _, ok := t.scopes[len(t.scopes)-1][id.Name]; !ok && id.Name != "_" {
					fresh = true
				}
			}
			if !fresh {
				t.fail(x, "no new variable in :=")
			}
		}
		a1 := t.assignTo(x.Lhs[0], n1, tInt(ity), define)
		a2 := t.assignTo(x.Lhs[1], n2, tBool, define)
		return "match " + call.term + " with None => None | Some (" + n1 + ", " + n2 + ") =>\n" + a1 + a2 + k() + " end"
	}
	if len(x.Lhs) != 1 || len(x.Rhs) != 1 {
		t.fail(x, "parallel assignment")
	}
	if _, _, _, ok := t.checkedCall(x.Rhs[0]); ok {
		t.fail(x, "result of math/checked assigned to one variable")
	}
	switch x.Tok {
	case token.DEFINE, token.ASSIGN:
		r := t.expr(x.Rhs[0])
		if r.ty.k == kList || r.ty.k == kLen || r.ty.k == kRecord {
			t.fail(x, "assignment of a value of type %s", r.ty)
		}
		if id, ok := x.Lhs[0].(*ast.Ident); ok && id.Name == "_" && !define {
			// _ = e : e is evaluated (it may panic), its value is dropped
			return bindStmt(t, r, func(string) string { return k() })
		}
		if !define {
			r = t.conv(x, r, t.lhsType(x.Lhs[0]))
		} else if id, ok := x.Lhs[0].(*ast.Ident); ok {
			if _, ok := t.scopes[len(t.scopes)-1][id.Name]; ok {
				t.fail(x, "no new variable in :=")
			}
		}
		return bindStmt(t, r, func(p string) string { return t.assignTo(x.Lhs[0], p, r.ty, define) + k() })
	}
	ops := map[token.Token]token.Token{token.ADD_ASSIGN: token.ADD, token.SUB_ASSIGN: token.SUB, token.MUL_ASSIGN: token.MUL,
		token.QUO_ASSIGN: token.QUO, token.REM_ASSIGN: token.REM, token.SHL_ASSIGN: token.SHL, token.SHR_ASSIGN: token.SHR}
	op, ok := ops[x.Tok]
	if !ok {
		t.fail(x, "assignment operator %s", x.Tok)
	}
	ty := t.lhsType(x.Lhs[0])
	r := t.binary(&ast.BinaryExpr{X: x.Lhs[0], OpPos: x.TokPos, Op: op, Y: x.Rhs[0]})
	r = t.conv(x, r, ty)
	return bindStmt(t, r, func(p string) string { return t.assignTo(x.Lhs[0], p, ty, false) + k() })
}

func (t *tr) block(b *ast.BlockStmt, k func() string) string {
	t.push()
	code := t.stmts(b.List, k)
	t.pop()
	return code
}

func (t *tr) stmts(ss []ast.Stmt, k func() string) string {
	if len(ss) == 0 {
		return k()
	}
	if _, ok := ss[0].(*ast.ReturnStmt); ok && len(ss) > 1 {
		t.fail(ss[1], "code after return")
	}
	rest := t.atDepth(func() string { return t.stmts(ss[1:], k) })
	return t.stmt(ss[0], rest)
}

// assigned: the variables declared outside body that body assigns (in order of appearance)
func (t *tr) assigned(body *ast.BlockStmt) []string {
	var names []string
	seen := map[string]bool{}
	add := func(e ast.Expr) {
		switch x := e.(type) {
		case *ast.Ident:
			if x.Name != "_" && !seen[x.Name] && t.lookup(x.Name) != nil {
				seen[x.Name] = true
				names = append(names, x.Name)
			}
		case *ast.SelectorExpr:
			if id, ok := x.X.(*ast.Ident); ok && !seen[id.Name] && t.lookup(id.Name) != nil {
				seen[id.Name] = true
				names = append(names, id.Name)
			}
		}
	}
	ast.Inspect(body, func(n ast.Node) bool {
		switch x := n.(type) {
		case *ast.AssignStmt:
			for _, l := range x.Lhs {
				add(l) // also for := : a redeclared outer name is kept in the state, harmlessly
			}
		case *ast.IncDecStmt:
			add(x.X)
		}
		return true
	})
	return names
}

func (t *tr) resultType() string {
	var parts []string
	for _, r := range t.results {
		if r.k == kErr {
			parts = append(parts, "option "+t.em.errType())
		} else {
			parts = append(parts, coqType(r))
		}
	}
	if t.withSt {
		parts = append(parts, t.recvRec.name)
	}
	if len(parts) == 0 {
		return "unit"
	}
	return "(" + strings.Join(parts, " * ") + ")"
}

func (t *tr) rangeLoop(x *ast.RangeStmt, k func() string) string {
	if x.Tok != token.DEFINE || x.Value == nil {
		t.fail(x, "range loop must have the form  for _, x := range L")
	}
	if key, ok := x.Key.(*ast.Ident); !ok || key.Name != "_" {
		t.fail(x, "range loop with an index variable")
	}
	lv := t.absLookup(x.X)
	if lv == nil || lv.ty.k != kList {
		t.fail(x.X, "range over %s, which is not an abstracted list", t.src(x.X))
	}
	elem, ok := x.Value.(*ast.Ident)
	if !ok {
		t.fail(x, "range value")
	}
	vars := t.assigned(x.Body)
	var names, types []string
	for _, n := range vars {
		v := t.lookup(n)
		if v.ty.k == kList || v.ty.k == kLen {
			t.fail(x, "loop assigns %s of type %s", n, v.ty)
		}
		names = append(names, v.coq)
		types = append(types, coqType(v.ty))
	}
	stTerm, stType, stBinder := "tt", "unit", "(_ : unit)"
	if len(names) == 1 {
		stTerm, stType, stBinder = names[0], types[0], names[0]
	} else if len(names) > 1 {
		stTerm = "(" + strings.Join(names, ", ") + ")"
		stType = "(" + strings.Join(types, " * ") + ")"
		stBinder = "'" + stTerm
	}
	stPat := stTerm
	if len(names) == 0 {
		stPat = "_"
	}
	outer := t.wrapRet
	t.push()
	ev := t.declare(elem, elem.Name, lv.ty.elem)
	t.wrapRet = func(v string) string { return "Some (Ret " + paren(v) + ")" }
	body := t.block(x.Body, t.atDepth(func() string { return "Some (Next " + stTerm + ")" }))
	t.wrapRet = outer
	t.pop()
	r := t.tmp()
	after := k()
	return fmt.Sprintf("match range_loop (S:=%s) (R:=%s) (fun %s %s =>\n%s) %s %s with\n| None => None\n| Some (Ret %s) => %s\n| Some (Next %s) =>\n%s\nend",
		stType, t.resultType(), ev.coq, stBinder, body, lv.coq, stTerm, r, outer(r), stPat, after)
}

// ------------------------------------------------------------------ abstracted selectors: type check

// fieldType: the type expression of field path[0].path[1]... starting from struct type name in package q
func fieldType(q *pkg, stName string, field string) ast.Expr {
	st, ok := q.structs[stName]
	if !ok {
		return nil
	}
	for _, f := range st.Fields.List {
		for _, n := range f.Names {
			if n.Name == field {
				return f.Type
			}
		}
	}
	for _, f := range st.Fields.List { // embedded structs
		if len(f.Names) == 0 {
			if id, ok := f.Type.(*ast.Ident); ok {
				if r := fieldType(q, id.Name, field); r != nil {
					return r
				}
			}
		}
	}
	return nil
}

// varStruct: the struct type name of package-level variable v (through its initialiser)
func varStruct(q *pkg, v string, depth int) string {
	vs, ok := q.vars[v]
	if !ok || depth > 5 {
		return ""
	}
	if id, ok := vs.Type.(*ast.Ident); ok {
		return id.Name
	}
	for i, n := range vs.Names {
		if n.Name != v || i >= len(vs.Values) {
			continue
		}
		switch e := vs.Values[i].(type) {
		case *ast.Ident:
			return varStruct(q, e.Name, depth+1)
		case *ast.CompositeLit:
			if id, ok := e.Type.(*ast.Ident); ok {
				return id.Name
			}
		}
	}
	return ""
}

func (t *tr) setupAbstract() []string {
	var params []string
	for _, a := range t.tg.Abstract {
		parts := strings.Split(a.Sel, ".")
		q := t.p
		var stName string
		if parts[0] == t.recv && t.recv != "" {
			stName = t.tg.Recv
			parts = parts[1:]
		} else {
			if cp, ok := constPkgs[parts[0]]; ok && len(parts) == 3 {
				q = loadPkg(cp[0])
				parts = parts[1:]
			}
			stName = varStruct(q, parts[0], 0)
			parts = parts[1:]
		}
		if stName == "" || len(parts) != 1 {
			die("%s: cannot resolve the abstracted selector %s", t.tg.Name, a.Sel)
		}
		ft := fieldType(q, stName, parts[0])
		if ft == nil {
			die("%s: abstracted selector %s: no field %s in %s", t.tg.Name, a.Sel, parts[0], stName)
		}
		var b bytes.Buffer
		printer.Fprint(&b, q.fset, ft)
		got := b.String()
		var ty *gtype
		switch a.Kind {
		case "lens":
			at, ok := ft.(*ast.ArrayType)
			inner, ok2 := at, false
			if ok {
				inner, ok2 = at.Elt.(*ast.ArrayType)
			}
			if !ok || !ok2 || inner.Len != nil || t.srcIn(q, inner.Elt) != "byte" {
				die("%s: abstracted selector %s has type %s, not a slice/array of []byte", t.tg.Name, a.Sel, got)
			}
			ty = &gtype{k: kList, elem: tLen}
		case "structs":
			if got != "[]"+a.Elem || q != t.p {
				die("%s: abstracted selector %s has type %s, not []%s of the package", t.tg.Name, a.Sel, got, a.Elem)
			}
			r := t.em.recordOf(a.Elem)
			if r == nil {
				die("%s: struct %s has fields outside the fragment", t.tg.Name, a.Elem)
			}
			ty = &gtype{k: kList, elem: &gtype{k: kRecord, rec: r}}
		case "scalar":
			if got != a.Elem || intTypes[a.Elem] == "" {
				die("%s: abstracted selector %s has type %s, not %s", t.tg.Name, a.Sel, got, a.Elem)
			}
			ty = tInt(intTypes[a.Elem])
		default:
			die("unknown abstraction kind %s", a.Kind)
		}
		coq := strings.ReplaceAll(a.Sel, ".", "_")
		if t.em.reserved[coq] {
			die("abstracted selector name %s clashes", coq)
		}
		t.abs[a.Sel] = &variable{coq: coq, ty: ty}
		params = append(params, fmt.Sprintf("(%s : %s)", coq, coqType(ty)))
	}
	return params
}

func (t *tr) srcIn(q *pkg, n ast.Node) string {
	var b bytes.Buffer
	printer.Fprint(&b, q.fset, n)
	return b.String()
}

// ------------------------------------------------------------------ one function

func (em *emitter) translate(tg *target) {
	f, ok := em.p.files[tg.File]
	if !ok {
		die("configured file %s not found", tg.File)
	}
	var fd *ast.FuncDecl
	for _, d := range f.Decls {
		x, ok := d.(*ast.FuncDecl)
		if !ok || x.Name.Name != tg.Name {
			continue
		}
		rt := ""
		if x.Recv != nil && len(x.Recv.List) == 1 {
			e := x.Recv.List[0].Type
			if s, ok := e.(*ast.StarExpr); ok {
				e = s.X
			}
			if id, ok := e.(*ast.Ident); ok {
				rt = id.Name
			}
		}
		if rt == tg.Recv {
			fd = x
		}
	}
	if fd == nil || fd.Body == nil {
		die("configured function %s.%s not found in %s", tg.Recv, tg.Name, tg.File)
	}
	t := &tr{em: em, p: em.p, fn: fd, tg: tg, abs: map[string]*variable{}}
	t.push()
	var params []string
	coqName := tg.Name
	ptrRecv := false
	if fd.Recv != nil {
		coqName = tg.Recv + "_" + tg.Name
		r := fd.Recv.List[0]
		if len(r.Names) == 1 {
			t.recv = r.Names[0].Name
		}
		_, ptrRecv = r.Type.(*ast.StarExpr)
		t.recvRec = em.recordOf(tg.Recv)
	}
	absParams := t.setupAbstract()
	if t.recvRec != nil && t.recv != "" {
		v := t.declare(fd, t.recv, &gtype{k: kRecord, rec: t.recvRec})
		params = append(params, fmt.Sprintf("(%s : %s)", v.coq, t.recvRec.name))
	}
	params = append(params, absParams...)
	for _, p := range fd.Type.Params.List {
		ty := typeOf(p.Type)
		if ty == nil || ty.k == kErr {
			t.fail(p, "parameter of type %s", t.src(p.Type))
		}
		if len(p.Names) == 0 {
			t.fail(p, "unnamed parameter")
		}
		for _, n := range p.Names {
			v := t.declare(n, n.Name, ty)
			params = append(params, fmt.Sprintf("(%s : %s)", v.coq, coqType(ty)))
		}
	}
	var rdesc []string
	if fd.Type.Results != nil {
		for _, r := range fd.Type.Results.List {
			ty := typeOf(r.Type)
			if ty == nil {
				t.fail(r, "result of type %s", t.src(r.Type))
			}
			if len(r.Names) > 0 {
				t.fail(r, "named results")
			}
			t.results = append(t.results, ty)
			rdesc = append(rdesc, ty.String())
		}
	}
	// does the body assign to a field of the receiver?
	if t.recvRec != nil && t.recv != "" {
		for _, n := range t.assigned(fd.Body) {
			if n == t.recv {
				t.withSt = true
			}
		}
		if t.withSt && !ptrRecv {
			t.fail(fd, "assignment to a field of a value receiver")
		}
	}
	t.wrapRet = func(v string) string { return "Some " + paren(v) }
	t.push()
	body := t.stmts(fd.Body.List, t.atDepth(func() string {
		if len(t.results) != 0 {
			t.fail(fd, "function falls off the end")
		}
		if t.withSt {
			return t.wrapRet(t.stateTerm())
		}
		return t.wrapRet("tt")
	}))
	def := fmt.Sprintf("(* %s: %s *)\nDefinition %s %s : option %s :=\n%s.\n", tg.File, t.srcSig(fd), coqName, strings.Join(params, " "), t.resultType(), body)
	em.defs = append(em.defs, def)
	em.sigs = append(em.sigs, fmt.Sprintf("%s/%d->%s", coqName, len(params), strings.Join(rdesc, ",")))
}

func (t *tr) srcSig(fd *ast.FuncDecl) string {
	c := *fd
	c.Body = nil
	c.Doc = nil
	r := strings.ReplaceAll(t.src(&c), "\n", " ")
	// keep the signature from opening or closing a Coq comment
	return strings.ReplaceAll(strings.ReplaceAll(r, "(*", "( *"), "*)", "* )")
}

// ------------------------------------------------------------------ checked signatures (as go2coq accepts them)

func loadChecked() map[string][2]string {
	fset := token.NewFileSet()
	f, err := parser.ParseFile(fset, filepath.Join(repo, "math/checked/checked.go"), nil, 0)
	if err != nil {
		die("%v", err)
	}
	out := map[string][2]string{}
	for _, d := range f.Decls {
		fd, ok := d.(*ast.FuncDecl)
		if !ok || fd.Recv != nil || fd.Type.Results == nil {
			continue
		}
		ty, n, good := "", 0, true
		for _, p := range fd.Type.Params.List {
			id, ok := p.Type.(*ast.Ident)
			if !ok || id.Name == "int" || id.Name == "uint" || intTypes[id.Name] == "" || (ty != "" && intTypes[id.Name] != ty) {
				good = false
				break
			}
			ty = intTypes[id.Name]
			n += len(p.Names)
		}
		var rts []string
		for _, r := range fd.Type.Results.List {
			k := len(r.Names)
			if k == 0 {
				k = 1
			}
			id, _ := r.Type.(*ast.Ident)
			for i := 0; i < k; i++ {
				if id != nil {
					rts = append(rts, id.Name)
				} else {
					rts = append(rts, "?")
				}
			}
		}
		if !good || n == 0 || len(rts) != 2 || intTypes[rts[0]] != ty || rts[1] != "bool" {
			continue
		}
		out[fd.Name.Name] = [2]string{ty, fmt.Sprint(n)}
	}
	return out
}

// ------------------------------------------------------------------ output

var vocabulary = []string{"wrap", "gdiv", "gmod", "gshl", "gshr", "range_loop", "Next", "Ret", "Some", "None", "negb", "andb", "orb",
	"true", "false", "tt", "unit", "bool", "list", "option", "Z", "I32", "I64", "U32", "U64", "fun", "match", "with", "end", "let", "in",
	"if", "then", "else", "as", "at", "return", "forall", "exists", "fix", "cofix", "Type", "Prop", "Set", "nil", "cons", "fst", "snd", "pair",
	"IF", "using", "where", "mod", "S", "R", "O"}

func main() {
	if len(os.Args) != 4 {
		fmt.Fprintln(os.Stderr, "usage: gofrag <repo> <Unit> <out.v>")
		os.Exit(2)
	}
	repo = os.Args[1]
	var u *unit
	for i := range units {
		if units[i].Name == os.Args[2] {
			u = &units[i]
		}
	}
	if u == nil {
		die("unknown unit %s", os.Args[2])
	}
	em := &emitter{u: u, p: loadPkg(u.Dir), records: map[string]*record{}, errs: map[string]bool{}, checked: loadChecked(), reserved: map[string]bool{}}
	for _, w := range vocabulary {
		em.reserved[w] = true
	}
	for name := range em.checked {
		em.reserved[name] = true
	}
	for _, q := range constPkgs {
		for _, c := range loadPkg(q[0]).consts {
			em.reserved[c.coq] = true
		}
	}
	for _, s := range em.p.sorder {
		em.reserved[s] = true
	}
	for i := range u.Targets {
		tg := &u.Targets[i]
		n := tg.Name
		if tg.Recv != "" {
			n = tg.Recv + "_" + tg.Name
		}
		em.reserved[n] = true
	}
	for i := range u.Targets {
		em.translate(&u.Targets[i])
	}

	var out strings.Builder
	fmt.Fprintf(&out, "(* GENERATED by tools/gofrag (unit %s) from %s -- do not edit *)\n", u.Name, filepath.Join(repo, u.Dir))
	out.WriteString("From Coq Require Import ZArith List Bool String.\nFrom Verif Require Import GoInt GoFrag.\nFrom VerifGen Require Import Checked")
	for _, i := range u.Imports {
		out.WriteString(" Frag" + i)
	}
	out.WriteString(".\nImport ListNotations.\nLocal Open Scope Z_scope.\n\n")
	if u.Consts {
		out.WriteString("(* integer constants of package " + em.p.name + " *)\n")
		for _, n := range em.p.corder {
			c := em.p.consts[n]
			fmt.Fprintf(&out, "Definition %s : Z := %s. (* %s *)\n", c.coq, c.v.String(), c.ty)
		}
		out.WriteString("Definition skipped_consts : list string :=\n  (")
		for _, n := range em.p.skipped {
			fmt.Fprintf(&out, "\"%s\"%%string :: ", n)
		}
		out.WriteString("nil).\n\n")
	}
	var errNames []string
	for _, s := range em.p.sorder {
		if em.errs[s] {
			errNames = append(errNames, s)
		}
	}
	if len(errNames) > 0 {
		et := em.errType()
		fmt.Fprintf(&out, "(* the sentinel errors returned by the translated functions *)\nInductive %s := %s.\n", et, strings.Join(errNames, " | "))
		fmt.Fprintf(&out, "Definition %s_eqb (a b : %s) : bool :=\n  match a, b with\n", et, et)
		for _, e := range errNames {
			fmt.Fprintf(&out, "  | %s, %s => true\n", e, e)
		}
		if len(errNames) > 1 {
			out.WriteString("  | _, _ => false\n")
		}
		out.WriteString("  end.\n\n")
	}
	for _, rn := range em.rorder {
		r := em.records[rn]
		var fs []string
		for i, f := range r.fields {
			fs = append(fs, fmt.Sprintf("%s_%s : %s", rn, f, coqType(r.ftypes[i])))
		}
		fmt.Fprintf(&out, "Record %s := mk%s { %s }.\n", rn, rn, strings.Join(fs, "; "))
		for i, f := range r.fields {
			var args []string
			for j, g := range r.fields {
				if i == j {
					args = append(args, "v")
				} else {
					args = append(args, fmt.Sprintf("(%s_%s r)", rn, g))
				}
			}
			fmt.Fprintf(&out, "Definition %s_set_%s (r : %s) (v : %s) : %s := mk%s %s.\n", rn, f, rn, coqType(r.ftypes[i]), rn, rn, strings.Join(args, " "))
		}
		var eqs []string
		for i, f := range r.fields {
			eq := "Z.eqb"
			if r.ftypes[i].k == kBool {
				eq = "Bool.eqb"
			}
			eqs = append(eqs, fmt.Sprintf("%s (%s_%s a) (%s_%s b)", eq, rn, f, rn, f))
		}
		fmt.Fprintf(&out, "Definition %s_eqb (a b : %s) : bool := %s.\n\n", rn, rn, strings.Join(eqs, " && "))
	}
	for _, d := range em.defs {
		out.WriteString(d + "\n")
	}
	out.WriteString("Definition frag_functions : list string :=\n  (")
	for _, s := range em.sigs {
		fmt.Fprintf(&out, "\"%s\"%%string :: ", s)
	}
	out.WriteString("nil).\n")
	if err := os.WriteFile(os.Args[3], []byte(out.String()), 0644); err != nil {
		die("%v", err)
	}
}
