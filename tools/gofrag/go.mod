module gofrag

go 1.16
