package main

// The configured list of functions translated by gofrag, grouped in units (one output file per
// unit, coq/gen/Frag<Unit>.v).  Paths are relative to the repository root.
//
// Abstract: a selector expression (written exactly as in the source, package qualifier
// included) that is NOT translated but becomes an additional parameter of the Gallina
// function, in the order given here, before the Go parameters:
//
//	kind "lens"    a slice/array of byte slices of which the function only takes len(elem):
//	               parameter of type list Z (the lengths, each 0 <= len <= MaxInt64)
//	kind "structs" a slice of an all-integer struct type Elem of the unit's package:
//	               parameter of type list Elem (Elem becomes a Record)
//	kind "scalar"  an integer variable (global configuration) of Go type Elem
//
// The translator checks the declared Go type of the selector against the kind (struct field
// lookup, also through embedded structs); a mismatch is a fatal error.
type absSpec struct {
	Sel  string
	Kind string
	Elem string
}

type target struct {
	File     string
	Recv     string // receiver type name, "" for a plain function
	Name     string
	Abstract []absSpec
}

type unit struct {
	Name    string   // output module Frag<Name>
	Dir     string   // package directory
	Consts  bool     // emit the integer constants of the package
	Imports []string // units whose generated constants are referenced (package name -> unit)
	Targets []target
}

// packages whose constants may be referenced as pkg.Name: package name -> (directory, unit)
var constPkgs = map[string][2]string{
	"consensus": {"consensus", "Consensus"},
}

var units = []unit{
	{
		Name: "Consensus", Dir: "consensus", Consts: true,
		Targets: []target{
			{File: "consensus/general.go", Name: "VotePendingBlockNums",
				Abstract: []absSpec{{Sel: "ActiveNetParams.VotePendingBlockNums", Kind: "structs", Elem: "VotePendingBlockNum"}}},
		},
	},
	{
		Name: "Validation", Dir: "protocol/validation", Imports: []string{"Consensus"},
		Targets: []target{
			{File: "protocol/validation/tx.go", Recv: "GasState", Name: "setGas"},
			{File: "protocol/validation/tx.go", Recv: "GasState", Name: "chargeStorageGas"},
			{File: "protocol/validation/tx.go", Recv: "GasState", Name: "updateUsage"},
		},
	},
	{
		Name: "Types", Dir: "protocol/bc/types",
		Targets: []target{
			{File: "protocol/bc/types/sup_link.go", Recv: "SupLink", Name: "IsMajority",
				Abstract: []absSpec{{Sel: "s.Signatures", Kind: "lens"}}},
		},
	},
	{
		Name: "State", Dir: "protocol/state", Imports: []string{"Consensus"},
		Targets: []target{
			{File: "protocol/state/checkpoint.go", Name: "getValidatorOrder",
				Abstract: []absSpec{{Sel: "consensus.ActiveNetParams.BlockTimeInterval", Kind: "scalar", Elem: "uint64"}}},
		},
	},
}
