// syncskel: translator T2.  Extracts the SYNCHRONISATION SKELETON of the chain / casper /
// mempool entry points from /repo's working tree (go/parser + go/ast, no type checker) and emits
// it as control-flow graphs in the process language of coq/C37/Lts.v.
//
//	syncskel <repo> <out.v>        Coq output (coq/gen/SyncSkel.v)
//	syncskel -json <repo>          the same skeleton as JSON on stdout (node -> source call path);
//	                               used by harness/c37 to map goroutine dumps and race reports
//	                               onto model nodes
//
// What is kept of a function body: Lock/RLock/Unlock/RUnlock (also deferred) on the tracked
// locks, channel send / receive / range / select on struct-field channels and on per-message
// reply channels, reads and writes of the declared shared fields, branches (as nondeterministic
// choice; the branches named in `labelled` keep a label so that a model can fix them), loops,
// returns with their deferred calls, and calls: every call that resolves to a function or method
// declared in the two packages and that (transitively) contains one of the above is INLINED at
// the call site (recursion is cut: a recursive call is skipped, its body is already in the
// enclosing loop).  Calls into other packages (store, validation, state, event, caches, logging)
// are opaque: their internal locks are leaf locks (taken and released inside the call, never held
// across a call back into these packages) - an assumption listed in checks/C37.json.
//
// Anything the fragment cannot express inside a visited function is a fatal error (exit 2):
// go statements, select with default or send cases, goto / labelled break, sync.Cond.Wait,
// close(chan), a channel or lock expression that cannot be resolved, a select/send on an unknown
// channel.
//
// The raw graph is then compressed: maximal sync-free regions become one node carrying the set of
// shared-field accesses that can occur in the region (or disappear when there are none).
package main

import (
	"encoding/json"
	"fmt"
	"go/ast"
	"go/parser"
	"go/token"
	"os"
	"path/filepath"
	"sort"
	"strconv"
	"strings"
)

// ------------------------------------------------------------------ configuration

var pkgDirs = []string{"protocol", "protocol/casper"}

// tracked locks (canonical identity = <receiver type>.<selector path>)
var trackedLocks = []string{"Casper.mu", "Chain.cond.L", "TxPool.mtx", "OrphanManage.mtx"}

// leaf locks: taken and released without any other blocking operation in between (CHECKED below,
// a violation is a fatal error).  Their critical sections are folded into the synchronisation-free
// regions; every access records which leaf locks are held (lockset), which is what the race
// predicate of the model uses.  A leaf lock cannot take part in a cyclic wait.
var leafLocks = []string{"Chain.cond.L", "TxPool.mtx", "OrphanManage.mtx"}

// declared shared fields
var sharedFields = []string{"Casper.tree", "Chain.bestBlockHeader", "TxPool.pool", "TxPool.utxo", "TxPool.orphans", "TxPool.orphansByPrev", "TxPool.errCache",
	"OrphanManage.orphan", "OrphanManage.prevOrphans"}

// calls that mutate a shared object through a pointer obtained from it (not inlined)
var mutatorCalls = map[string]string{"newChild": "Casper.tree", "Increase": "Casper.tree", "AddVerification": "Casper.tree"}

// method calls on a shared field's value that mutate it (x.<field>.<method>(...))
var mutatingMethods = map[string]bool{"Add": true, "Remove": true, "Purge": true}

// per field: further methods that mutate.  TxPool.errCache is a groupcache lru.Cache, which has no
// lock of its own and whose Get moves the entry to the front of its recency list: a write.
var fieldMutatingMethods = map[string]map[string]bool{"TxPool.errCache": {"Get": true, "RemoveOldest": true, "Clear": true}}

// in package casper, assignments to these fields of a checkpoint / tree node write the tree
var treeFieldWrites = map[string]bool{"Status": true, "Parent": true, "children": true}

// labelled branches: function -> substring of the condition -> label
type labelRule struct {
	fn, cond string
	label    int
	name     string
}

var labelled = []labelRule{
	{"Casper.tryRollback", "oldBestHash != newBestHash", 1, "vote-moves-best-chain"},
}

// processes: name -> root functions (several roots = one-shot choice among them)
type procDef struct {
	name  string
	roots []string
}

var processes = []procDef{
	{"bp", []string{"Chain.blockProcessor"}},
	{"loop", []string{"Casper.authVerificationLoop"}},
	{"vote", []string{"Chain.ProcessBlockVerification"}},
	{"block", []string{"Chain.ProcessBlock"}},
	{"tx", []string{"Chain.ValidateTx"}},
	{"read", []string{"Chain.BestBlockHeader", "Chain.BestBlockHeight", "Chain.BestBlockHash", "Chain.BestChain",
		"Chain.LastJustifiedHeader", "Chain.LastFinalizedHeader", "Chain.FinalizedHeight", "Chain.InMainChain",
		"Chain.BlockExist", "Chain.AllValidators", "Chain.GetValidator", "Chain.PrevCheckpointByPrevHash",
		"TxPool.GetTransactions", "TxPool.GetTransaction", "TxPool.HaveTransaction", "TxPool.IsTransactionInPool",
		"TxPool.IsTransactionInErrCache", "TxPool.GetErrCache"}},
	{"expire", []string{"TxPool.ExpireOrphan", "OrphanManage.orphanExpire"}},
	{"poolwrite", []string{"TxPool.RemoveTransaction", "TxPool.AddErrCache"}},
}

// ------------------------------------------------------------------ parsed program

type fnInfo struct {
	key   string // "Type.Method" or "pkg.func"
	decl  *ast.FuncDecl
	pkg   string // directory
	recv  string // receiver variable name
	rtype string // receiver type name
}

type structInfo struct {
	fields map[string]ast.Expr
}

type program struct {
	fset        *token.FileSet
	repo        string
	funcs       map[string]*fnInfo
	structs     map[string]*structInfo
	consts      map[string]int
	caps        map[string]int    // channel identity -> capacity
	elem        map[string]string // channel identity -> element type name
	msgType     map[string]bool   // struct types that travel over a channel
	interesting map[string]int    // memo: 0 unknown, 1 yes, 2 no, 3 in progress
}

func fatal(format string, a ...interface{}) {
	fmt.Fprintf(os.Stderr, "syncskel: "+format+"\n", a...)
	os.Exit(2)
}

func typeName(e ast.Expr) string {
	switch x := e.(type) {
	case *ast.StarExpr:
		return typeName(x.X)
	case *ast.Ident:
		return x.Name
	case *ast.SelectorExpr:
		return x.Sel.Name // casper.Casper -> Casper
	case *ast.ParenExpr:
		return typeName(x.X)
	}
	return ""
}

func load(repo string) *program {
	p := &program{fset: token.NewFileSet(), repo: repo, funcs: map[string]*fnInfo{}, structs: map[string]*structInfo{},
		consts: map[string]int{}, caps: map[string]int{}, elem: map[string]string{}, msgType: map[string]bool{}, interesting: map[string]int{}}
	for _, dir := range pkgDirs {
		files, err := filepath.Glob(filepath.Join(repo, dir, "*.go"))
		if err != nil || len(files) == 0 {
			fatal("no Go files in %s", filepath.Join(repo, dir))
		}
		sort.Strings(files)
		for _, f := range files {
			if strings.HasSuffix(f, "_test.go") || strings.HasSuffix(f, "_verif.go") {
				continue
			}
			af, err := parser.ParseFile(p.fset, f, nil, 0)
			if err != nil {
				fatal("parse %s: %v", f, err)
			}
			for _, d := range af.Decls {
				switch x := d.(type) {
				case *ast.FuncDecl:
					if x.Body == nil {
						continue
					}
					fi := &fnInfo{decl: x, pkg: dir}
					if x.Recv != nil && len(x.Recv.List) == 1 {
						fi.rtype = typeName(x.Recv.List[0].Type)
						if len(x.Recv.List[0].Names) == 1 {
							fi.recv = x.Recv.List[0].Names[0].Name
						}
						fi.key = fi.rtype + "." + x.Name.Name
					} else {
						fi.key = filepath.Base(dir) + "." + x.Name.Name
					}
					p.funcs[fi.key] = fi
				case *ast.GenDecl:
					for _, s := range x.Specs {
						switch sp := s.(type) {
						case *ast.TypeSpec:
							if st, ok := sp.Type.(*ast.StructType); ok {
								si := &structInfo{fields: map[string]ast.Expr{}}
								for _, fl := range st.Fields.List {
									for _, n := range fl.Names {
										si.fields[n.Name] = fl.Type
									}
								}
								p.structs[sp.Name.Name] = si
							}
						case *ast.ValueSpec:
							if x.Tok == token.CONST {
								for i, n := range sp.Names {
									if i < len(sp.Values) {
										if bl, ok := sp.Values[i].(*ast.BasicLit); ok && bl.Kind == token.INT {
											v, _ := strconv.Atoi(bl.Value)
											p.consts[n.Name] = v
										}
									}
								}
							}
						}
					}
				}
			}
		}
	}
	// channel fields: element types; message types
	for sn, si := range p.structs {
		for fn, ft := range si.fields {
			if ct, ok := ft.(*ast.ChanType); ok {
				id := sn + "." + fn
				p.elem[id] = typeName(ct.Value)
				if _, isStruct := p.structs[p.elem[id]]; isStruct {
					p.msgType[p.elem[id]] = true
				}
			}
		}
	}
	// capacities: composite literals  T{ f: make(chan X, n) }  anywhere; local  v := make(chan X, n)  used as  T{ f: v }
	for _, fi := range p.funcs {
		localCap := map[string]int{}
		ast.Inspect(fi.decl.Body, func(n ast.Node) bool {
			switch x := n.(type) {
			case *ast.AssignStmt:
				if len(x.Lhs) == 1 && len(x.Rhs) == 1 {
					if id, ok := x.Lhs[0].(*ast.Ident); ok {
						if c, ok := p.makeChanCap(x.Rhs[0]); ok {
							localCap[id.Name] = c
						}
					}
				}
			case *ast.CompositeLit:
				tn := typeName(x.Type)
				if _, ok := p.structs[tn]; !ok {
					return true
				}
				for _, el := range x.Elts {
					kv, ok := el.(*ast.KeyValueExpr)
					if !ok {
						continue
					}
					k, ok := kv.Key.(*ast.Ident)
					if !ok {
						continue
					}
					id := tn + "." + k.Name
					if _, isChan := p.elem[id]; !isChan {
						continue
					}
					if c, ok := p.makeChanCap(kv.Value); ok {
						p.setCap(id, c)
					} else if v, ok := kv.Value.(*ast.Ident); ok {
						if c, ok := localCap[v.Name]; ok {
							p.setCap(id, c)
						}
					}
				}
			}
			return true
		})
	}
	return p
}

func (p *program) setCap(id string, c int) {
	if old, ok := p.caps[id]; ok && old != c {
		fatal("channel %s is created with two different capacities (%d, %d)", id, old, c)
	}
	p.caps[id] = c
}

func (p *program) makeChanCap(e ast.Expr) (int, bool) {
	call, ok := e.(*ast.CallExpr)
	if !ok {
		return 0, false
	}
	if id, ok := call.Fun.(*ast.Ident); !ok || id.Name != "make" || len(call.Args) == 0 {
		return 0, false
	}
	if _, ok := call.Args[0].(*ast.ChanType); !ok {
		return 0, false
	}
	if len(call.Args) == 1 {
		return 0, true
	}
	switch a := call.Args[1].(type) {
	case *ast.BasicLit:
		v, err := strconv.Atoi(a.Value)
		if err != nil {
			fatal("channel capacity %s", a.Value)
		}
		return v, true
	case *ast.Ident:
		if v, ok := p.consts[a.Name]; ok {
			return v, true
		}
	}
	fatal("%s: channel capacity is not a literal or a package constant", p.fset.Position(e.Pos()))
	return 0, false
}

// ------------------------------------------------------------------ raw CFG

type heldLock struct {
	Lock  string `json:"lock"`
	Write bool   `json:"write"`
}

type accItem struct {
	Field string     `json:"field"`
	Write bool       `json:"write"`
	Path  string     `json:"path"`
	Held  []heldLock `json:"held,omitempty"`
}

func heldKey(h []heldLock) string {
	var r []string
	for _, x := range h {
		r = append(r, fmt.Sprintf("%s/%v", x.Lock, x.Write))
	}
	sort.Strings(r)
	return strings.Join(r, ",")
}

type node struct {
	id    int
	kind  string // tau | op | branch | sel | halt
	act   string // lock unlock rlock runlock send recv sendm recvm acc
	obj   string // lock / channel identity
	who   string // self | reg   (per-message channels)
	accs  []accItem
	next  []int
	label int
	thenN []int
	elseN []int
	alts  []*node // sel: alternative op nodes (each with its own next)
	path  string
	fn    string
}

type builder struct {
	p     *program
	nodes []*node
}

func (b *builder) add(n *node) int {
	n.id = len(b.nodes)
	b.nodes = append(b.nodes, n)
	return n.id
}

type scope struct {
	fi      *fnInfo
	vars    map[string]string // local variable -> struct type name
	recvd   map[string]bool   // variable was bound by a channel receive (message owned by someone else)
	chalias map[string]string // local channel variable -> channel identity
	stack   []string          // functions being inlined (recursion cut)
	callp   []string          // call-site positions, outermost first
	defers  []*ast.DeferStmt
	ret     int   // continuation of `return`
	brk     []int // break targets
	cont    []int // continue targets
}

func (b *builder) pos(n ast.Node) string {
	ps := b.p.fset.Position(n.Pos())
	rel, err := filepath.Rel(b.p.repo, ps.Filename)
	if err != nil {
		rel = ps.Filename
	}
	return fmt.Sprintf("%s:%d", filepath.ToSlash(rel), ps.Line)
}

func (b *builder) pathAt(sc *scope, n ast.Node) string {
	return strings.Join(append(append([]string{}, sc.callp...), b.pos(n)), ">")
}

// exprType: struct type name of an expression, "" if unknown.
func (b *builder) exprType(sc *scope, e ast.Expr) string {
	switch x := e.(type) {
	case *ast.ParenExpr:
		return b.exprType(sc, x.X)
	case *ast.StarExpr:
		return b.exprType(sc, x.X)
	case *ast.UnaryExpr:
		if x.Op == token.AND {
			return b.exprType(sc, x.X)
		}
		if x.Op == token.ARROW {
			if id := b.chanIdent(sc, x.X); id != "" {
				return b.p.elem[id]
			}
		}
	case *ast.CompositeLit:
		return typeName(x.Type)
	case *ast.Ident:
		if t, ok := sc.vars[x.Name]; ok {
			return t
		}
	case *ast.SelectorExpr:
		if t := b.exprType(sc, x.X); t != "" {
			if si, ok := b.p.structs[t]; ok {
				if ft, ok := si.fields[x.Sel.Name]; ok {
					tn := typeName(ft)
					if _, ok := b.p.structs[tn]; ok {
						return tn
					}
				}
			}
		}
	}
	return ""
}

// canon: canonical identity "<Type>.<sel>.<sel>" of a selector chain, using the longest typable prefix.
func (b *builder) canon(sc *scope, e ast.Expr) string {
	switch x := e.(type) {
	case *ast.ParenExpr:
		return b.canon(sc, x.X)
	case *ast.SelectorExpr:
		if t := b.exprType(sc, x.X); t != "" {
			return t + "." + x.Sel.Name
		}
		if base := b.canon(sc, x.X); base != "" {
			return base + "." + x.Sel.Name
		}
	}
	return ""
}

// chanIdent resolves a channel expression to its identity ("" if unknown).
func (b *builder) chanIdent(sc *scope, e ast.Expr) string {
	switch x := e.(type) {
	case *ast.ParenExpr:
		return b.chanIdent(sc, x.X)
	case *ast.Ident:
		return sc.chalias[x.Name]
	case *ast.SelectorExpr:
		id := b.canon(sc, x)
		if _, ok := b.p.elem[id]; ok {
			return id
		}
	case *ast.CallExpr: // getter:  func (c *T) F() <-chan X { return c.f }
		if sel, ok := x.Fun.(*ast.SelectorExpr); ok {
			if t := b.exprType(sc, sel.X); t != "" {
				if fi, ok := b.p.funcs[t+"."+sel.Sel.Name]; ok && len(fi.decl.Body.List) == 1 {
					if rs, ok := fi.decl.Body.List[0].(*ast.ReturnStmt); ok && len(rs.Results) == 1 {
						if s2, ok := rs.Results[0].(*ast.SelectorExpr); ok {
							if id2, ok := s2.X.(*ast.Ident); ok && id2.Name == fi.recv {
								id := t + "." + s2.Sel.Name
								if _, ok := b.p.elem[id]; ok {
									return id
								}
							}
						}
					}
				}
			}
		}
	}
	return ""
}

// chanOwner: for a per-message channel expression, who owns the message.
func (b *builder) chanOwner(sc *scope, e ast.Expr) string {
	switch x := e.(type) {
	case *ast.ParenExpr:
		return b.chanOwner(sc, x.X)
	case *ast.Ident:
		return "self" // local make(chan) aliased into a message this function built
	case *ast.SelectorExpr:
		if id, ok := x.X.(*ast.Ident); ok && sc.recvd[id.Name] {
			return "reg"
		}
	}
	return "self"
}

func isTracked(list []string, id string) bool {
	for _, x := range list {
		if x == id {
			return true
		}
	}
	return false
}

// isInteresting: does the function (transitively) contain anything the skeleton keeps?
func (p *program) isInteresting(key string) bool {
	switch p.interesting[key] {
	case 1:
		return true
	case 2, 3:
		return false
	}
	fi := p.funcs[key]
	if fi == nil {
		return false
	}
	p.interesting[key] = 3
	b := &builder{p: p}
	sc := b.newScope(fi, nil, nil)
	found := false
	ast.Inspect(fi.decl.Body, func(n ast.Node) bool {
		if found {
			return false
		}
		switch x := n.(type) {
		case *ast.SendStmt, *ast.SelectStmt, *ast.GoStmt:
			found = true
		case *ast.UnaryExpr:
			if x.Op == token.ARROW {
				found = true
			}
		case *ast.RangeStmt:
			b.bindLocals(sc, n)
			if b.chanIdent(sc, x.X) != "" {
				found = true
			}
		case *ast.AssignStmt:
			b.bindLocals(sc, n)
			if fi.pkg == "protocol/casper" {
				for _, l := range x.Lhs {
					if s, ok := l.(*ast.SelectorExpr); ok && treeFieldWrites[s.Sel.Name] {
						found = true
					}
				}
			}
		case *ast.SelectorExpr:
			if isTracked(sharedFields, b.canon(sc, x)) {
				found = true
			}
		case *ast.CallExpr:
			if sel, ok := x.Fun.(*ast.SelectorExpr); ok {
				switch sel.Sel.Name {
				case "Lock", "Unlock", "RLock", "RUnlock":
					if isTracked(trackedLocks, b.canon(sc, sel.X)) {
						found = true
					}
				}
				if _, ok := mutatorCalls[sel.Sel.Name]; ok {
					found = true
				}
			}
			if k := b.calleeKey(sc, x); k != "" && p.isInteresting(k) {
				found = true
			}
		}
		return true
	})
	if found {
		p.interesting[key] = 1
	} else {
		p.interesting[key] = 2
	}
	return found
}

func (b *builder) calleeKey(sc *scope, call *ast.CallExpr) string {
	switch f := call.Fun.(type) {
	case *ast.Ident:
		k := filepath.Base(sc.fi.pkg) + "." + f.Name
		if _, ok := b.p.funcs[k]; ok {
			return k
		}
	case *ast.SelectorExpr:
		if t := b.exprType(sc, f.X); t != "" {
			k := t + "." + f.Sel.Name
			if _, ok := b.p.funcs[k]; ok {
				return k
			}
		}
	}
	return ""
}

func (b *builder) newScope(fi *fnInfo, stack, callp []string) *scope {
	sc := &scope{fi: fi, vars: map[string]string{}, recvd: map[string]bool{}, chalias: map[string]string{},
		stack: append(append([]string{}, stack...), fi.key), callp: callp}
	if fi.recv != "" {
		sc.vars[fi.recv] = fi.rtype
	}
	if fi.decl.Type.Params != nil {
		for _, f := range fi.decl.Type.Params.List {
			tn := typeName(f.Type)
			if _, ok := b.p.structs[tn]; ok {
				for _, n := range f.Names {
					sc.vars[n.Name] = tn
				}
			}
		}
	}
	// local channel aliases:  v := make(chan ..)  ...  T{ f: v }
	ast.Inspect(fi.decl.Body, func(n ast.Node) bool {
		if cl, ok := n.(*ast.CompositeLit); ok {
			tn := typeName(cl.Type)
			for _, el := range cl.Elts {
				if kv, ok := el.(*ast.KeyValueExpr); ok {
					if k, ok := kv.Key.(*ast.Ident); ok {
						if v, ok := kv.Value.(*ast.Ident); ok {
							if _, isChan := b.p.elem[tn+"."+k.Name]; isChan {
								sc.chalias[v.Name] = tn + "." + k.Name
							}
						}
					}
				}
			}
		}
		return true
	})
	return sc
}

// bindLocals records the struct types of variables introduced by a statement.
func (b *builder) bindLocals(sc *scope, n ast.Node) {
	bind := func(lhs ast.Expr, rhs ast.Expr) {
		id, ok := lhs.(*ast.Ident)
		if !ok || id.Name == "_" {
			return
		}
		if t := b.exprType(sc, rhs); t != "" {
			sc.vars[id.Name] = t
			if u, ok := rhs.(*ast.UnaryExpr); ok && u.Op == token.ARROW {
				sc.recvd[id.Name] = true
			}
		}
	}
	switch x := n.(type) {
	case *ast.AssignStmt:
		if len(x.Lhs) == len(x.Rhs) {
			for i := range x.Lhs {
				bind(x.Lhs[i], x.Rhs[i])
			}
		} else if len(x.Rhs) == 1 && len(x.Lhs) >= 1 {
			bind(x.Lhs[0], x.Rhs[0])
		}
	case *ast.RangeStmt:
		if id := b.chanIdent(sc, x.X); id != "" && x.Key != nil {
			if k, ok := x.Key.(*ast.Ident); ok {
				if t := b.p.elem[id]; b.p.structs[t] != nil {
					sc.vars[k.Name] = t
					sc.recvd[k.Name] = true
				}
			}
		}
	}
}

// ---- effects of expressions, in evaluation order, chained in front of `succ`

type effect struct {
	kind string // op | call | acc
	n    *node
	call *ast.CallExpr
	key  string
}

func (b *builder) effects(sc *scope, e ast.Node, write bool, out *[]effect) {
	if e == nil {
		return
	}
	switch x := e.(type) {
	case *ast.ParenExpr:
		b.effects(sc, x.X, write, out)
	case *ast.FuncLit:
		// closure bodies are taken at the point of definition, as an unconditional sequence of
		// their accesses (they run under the same locks); synchronisation inside is refused
		ast.Inspect(x.Body, func(n ast.Node) bool {
			switch y := n.(type) {
			case nil:
				return false
			case *ast.SendStmt, *ast.SelectStmt, *ast.GoStmt, *ast.DeferStmt:
				fatal("%s: unsupported statement inside a function literal", b.pos(n))
			case *ast.AssignStmt:
				for _, l := range y.Lhs {
					b.effects(sc, l, true, out)
				}
				for _, r := range y.Rhs {
					b.effects(sc, r, false, out)
				}
				return false
			case *ast.IncDecStmt:
				b.effects(sc, y.X, true, out)
				return false
			case *ast.ExprStmt:
				b.effects(sc, y.X, false, out)
				return false
			case *ast.ReturnStmt:
				for _, r := range y.Results {
					b.effects(sc, r, false, out)
				}
				return false
			case ast.Expr:
				b.effects(sc, y, false, out)
				return false
			}
			return true
		})
		for _, ef := range *out {
			if ef.kind == "op" {
				fatal("%s: synchronisation inside a function literal", b.pos(x))
			}
		}
	case *ast.UnaryExpr:
		if x.Op == token.ARROW {
			id := b.chanIdent(sc, x.X)
			if id == "" {
				fatal("%s: receive from an unresolved channel", b.pos(x))
			}
			*out = append(*out, effect{kind: "op", n: b.chanNode(sc, x, "recv", id, x.X)})
			return
		}
		b.effects(sc, x.X, write && x.Op == token.AND, out)
	case *ast.BinaryExpr:
		b.effects(sc, x.X, false, out)
		b.effects(sc, x.Y, false, out)
	case *ast.StarExpr:
		b.effects(sc, x.X, write, out)
	case *ast.IndexExpr:
		b.effects(sc, x.X, write, out)
		b.effects(sc, x.Index, false, out)
	case *ast.SliceExpr:
		b.effects(sc, x.X, false, out)
		b.effects(sc, x.Low, false, out)
		b.effects(sc, x.High, false, out)
	case *ast.TypeAssertExpr:
		b.effects(sc, x.X, false, out)
	case *ast.KeyValueExpr:
		b.effects(sc, x.Value, false, out)
	case *ast.CompositeLit:
		for _, el := range x.Elts {
			b.effects(sc, el, false, out)
		}
	case *ast.SelectorExpr:
		id := b.canon(sc, x)
		if isTracked(sharedFields, id) {
			*out = append(*out, effect{kind: "acc", n: &node{kind: "op", act: "acc", accs: []accItem{{Field: id, Write: write, Path: b.pathAt(sc, x)}}, path: b.pathAt(sc, x), fn: sc.fi.key}})
			return
		}
		if write && sc.fi.pkg == "protocol/casper" && treeFieldWrites[x.Sel.Name] {
			*out = append(*out, effect{kind: "acc", n: &node{kind: "op", act: "acc", accs: []accItem{{Field: "Casper.tree", Write: true, Path: b.pathAt(sc, x)}}, path: b.pathAt(sc, x), fn: sc.fi.key}})
		}
		b.effects(sc, x.X, false, out)
	case *ast.CallExpr:
		b.callEffects(sc, x, out)
	case *ast.Ident, *ast.BasicLit, *ast.ArrayType, *ast.MapType, *ast.ChanType, *ast.FuncType, *ast.StructType, *ast.InterfaceType, *ast.Ellipsis:
	default:
		fatal("%s: unsupported expression %T", b.pos(e), e)
	}
}

func (b *builder) callEffects(sc *scope, call *ast.CallExpr, out *[]effect) {
	// builtins that write their first argument
	if id, ok := call.Fun.(*ast.Ident); ok {
		switch id.Name {
		case "delete":
			b.effects(sc, call.Args[0], true, out)
			for _, a := range call.Args[1:] {
				b.effects(sc, a, false, out)
			}
			return
		case "close":
			fatal("%s: close(chan) is outside the fragment", b.pos(call))
		case "make", "new", "len", "cap", "append", "copy", "panic", "print", "println":
			for _, a := range call.Args {
				b.effects(sc, a, false, out)
			}
			return
		}
	}
	if sel, ok := call.Fun.(*ast.SelectorExpr); ok {
		name := sel.Sel.Name
		switch name {
		case "Lock", "Unlock", "RLock", "RUnlock":
			id := b.canon(sc, sel.X)
			if isTracked(trackedLocks, id) {
				*out = append(*out, effect{kind: "op", n: &node{kind: "op", act: strings.ToLower(name), obj: id, path: b.pathAt(sc, call), fn: sc.fi.key}})
				return
			}
			if len(call.Args) == 0 {
				fatal("%s: lock %q is not in the tracked list (or cannot be resolved)", b.pos(call), id)
			}
		case "Wait":
			if strings.HasSuffix(b.canon(sc, sel.X), ".cond") {
				fatal("%s: sync.Cond.Wait is outside the fragment", b.pos(call))
			}
		}
		// receiver expression effects; a mutating method on a shared field writes it
		recvWrite := false
		if isTracked(sharedFields, b.canon(sc, sel.X)) && (mutatingMethods[name] || fieldMutatingMethods[b.canon(sc, sel.X)][name]) {
			recvWrite = true
		}
		if b.chanIdent(sc, call) == "" { // not a channel getter
			b.effects(sc, sel.X, recvWrite, out)
		}
		for _, a := range call.Args {
			b.effects(sc, a, false, out)
		}
		if f, ok := mutatorCalls[name]; ok {
			*out = append(*out, effect{kind: "acc", n: &node{kind: "op", act: "acc", accs: []accItem{{Field: f, Write: true, Path: b.pathAt(sc, call)}}, path: b.pathAt(sc, call), fn: sc.fi.key}})
			return
		}
	} else {
		b.effects(sc, call.Fun, false, out)
		for _, a := range call.Args {
			b.effects(sc, a, false, out)
		}
	}
	if k := b.calleeKey(sc, call); k != "" && b.p.isInteresting(k) {
		for _, s := range sc.stack {
			if s == k {
				return // recursion: cut
			}
		}
		*out = append(*out, effect{kind: "call", call: call, key: k})
	}
}

func (b *builder) chanNode(sc *scope, at ast.Node, dir, id string, chExpr ast.Expr) *node {
	n := &node{kind: "op", obj: id, path: b.pathAt(sc, at), fn: sc.fi.key}
	owner := id[:strings.Index(id, ".")]
	if b.p.msgType[owner] {
		n.act = dir + "m"
		n.who = b.chanOwner(sc, chExpr)
	} else {
		n.act = dir
	}
	if _, ok := b.p.caps[id]; !ok {
		fatal("%s: no make(chan) found for channel %s", b.pos(at), id)
	}
	return n
}

// chain builds the effects in order, flowing into succ; returns the entry.
func (b *builder) chain(sc *scope, effs []effect, succ int) int {
	for i := len(effs) - 1; i >= 0; i-- {
		ef := effs[i]
		switch ef.kind {
		case "op", "acc":
			ef.n.next = []int{succ}
			succ = b.add(ef.n)
		case "call":
			succ = b.inline(sc, ef.call, ef.key, succ)
		}
	}
	return succ
}

func (b *builder) exprFlow(sc *scope, e ast.Node, write bool, succ int) int {
	var effs []effect
	b.effects(sc, e, write, &effs)
	return b.chain(sc, effs, succ)
}

func (b *builder) inline(sc *scope, call *ast.CallExpr, key string, succ int) int {
	fi := b.p.funcs[key]
	nsc := b.newScope(fi, sc.stack, append(append([]string{}, sc.callp...), b.pos(call)))
	return b.funcBody(nsc, succ)
}

// funcBody: the body of a function whose `return` continues at ret.  Deferred calls (top level
// of the body only) run at every return that follows them and when control falls off the end.
func (b *builder) funcBody(sc *scope, ret int) int {
	stmts := sc.fi.decl.Body.List
	sc.ret = ret
	var all []*ast.DeferStmt
	type item struct {
		s  ast.Stmt
		nd int
	}
	var items []item
	for _, s := range stmts {
		if d, ok := s.(*ast.DeferStmt); ok {
			all = append(all, d)
			continue
		}
		items = append(items, item{s, len(all)})
	}
	b.prebind(sc, stmts)
	sc.defers = all
	succ := b.runDefers(sc, ret) // falling off the end
	for i := len(items) - 1; i >= 0; i-- {
		sc.defers = all[:items[i].nd]
		succ = b.stmt(sc, items[i].s, succ)
	}
	return succ
}

// prebind: types of the locals introduced by the statements (forward order; needed because the
// graph is built backwards)
func (b *builder) prebind(sc *scope, stmts []ast.Stmt) {
	for _, s := range stmts {
		ast.Inspect(s, func(n ast.Node) bool {
			if _, ok := n.(*ast.FuncLit); ok {
				return false
			}
			if n != nil {
				b.bindLocals(sc, n)
			}
			return true
		})
	}
}

func (b *builder) runDefers(sc *scope, succ int) int {
	for i := 0; i < len(sc.defers); i++ { // executed last-in first-out: build backwards = first defer last
		d := sc.defers[i]
		var effs []effect
		b.callEffects(sc, d.Call, &effs)
		succ = b.chain(sc, effs, succ)
	}
	return succ
}

func (b *builder) tau(next ...int) int {
	return b.add(&node{kind: "tau", next: next})
}

func (b *builder) stmt(sc *scope, s ast.Stmt, succ int) int {
	switch x := s.(type) {
	case nil:
		return succ
	case *ast.ExprStmt:
		return b.exprFlow(sc, x.X, false, succ)
	case *ast.AssignStmt:
		e := succ
		for i := len(x.Lhs) - 1; i >= 0; i-- {
			e = b.exprFlow(sc, x.Lhs[i], true, e)
		}
		for i := len(x.Rhs) - 1; i >= 0; i-- {
			e = b.exprFlow(sc, x.Rhs[i], false, e)
		}
		return e
	case *ast.IncDecStmt:
		return b.exprFlow(sc, x.X, true, succ)
	case *ast.DeclStmt:
		e := succ
		if gd, ok := x.Decl.(*ast.GenDecl); ok {
			for _, sp := range gd.Specs {
				if vs, ok := sp.(*ast.ValueSpec); ok {
					for i := len(vs.Values) - 1; i >= 0; i-- {
						e = b.exprFlow(sc, vs.Values[i], false, e)
					}
				}
			}
		}
		return e
	case *ast.SendStmt:
		id := b.chanIdent(sc, x.Chan)
		if id == "" {
			fatal("%s: send on an unresolved channel", b.pos(x))
		}
		n := b.chanNode(sc, x, "send", id, x.Chan)
		n.next = []int{succ}
		e := b.add(n)
		return b.exprFlow(sc, x.Value, false, e)
	case *ast.ReturnStmt:
		e := b.runDefers(sc, sc.ret)
		for i := len(x.Results) - 1; i >= 0; i-- {
			e = b.exprFlow(sc, x.Results[i], false, e)
		}
		return e
	case *ast.BlockStmt:
		return b.nested(sc, x.List, succ)
	case *ast.IfStmt:
		thenE := b.nested(sc, x.Body.List, succ)
		elseE := succ
		if x.Else != nil {
			elseE = b.stmt(sc, x.Else, succ)
		}
		var br int
		label := 0
		condTxt := b.src(x.Cond)
		if x.Init != nil {
			condTxt = b.src(x.Init) + "; " + condTxt
		}
		for _, r := range labelled {
			if r.fn == sc.fi.key && strings.Contains(condTxt, r.cond) {
				label = r.label
			}
		}
		if label != 0 {
			br = b.add(&node{kind: "branch", label: label, thenN: []int{thenE}, elseN: []int{elseE}, path: b.pathAt(sc, x), fn: sc.fi.key})
		} else {
			br = b.tau(thenE, elseE)
		}
		e := b.exprFlow(sc, x.Cond, false, br)
		if x.Init != nil {
			e = b.stmt(sc, x.Init, e)
		}
		return e
	case *ast.ForStmt:
		head := b.tau()
		sc.brk = append(sc.brk, succ)
		post := head
		if x.Post != nil {
			post = b.stmt(sc, x.Post, head)
		}
		sc.cont = append(sc.cont, post)
		body := b.nested(sc, x.Body.List, post)
		sc.brk, sc.cont = sc.brk[:len(sc.brk)-1], sc.cont[:len(sc.cont)-1]
		var choice int
		if x.Cond != nil {
			choice = b.exprFlow(sc, x.Cond, false, b.tau(body, succ))
		} else {
			choice = body // for { }: only break / return leave
		}
		b.nodes[head].next = []int{choice}
		e := head
		if x.Init != nil {
			e = b.stmt(sc, x.Init, e)
		}
		return e
	case *ast.RangeStmt:
		if id := b.chanIdent(sc, x.X); id != "" {
			rn := b.chanNode(sc, x, "recv", id, x.X)
			head := b.add(rn)
			sc.brk = append(sc.brk, succ)
			sc.cont = append(sc.cont, head)
			body := b.nested(sc, x.Body.List, head)
			sc.brk, sc.cont = sc.brk[:len(sc.brk)-1], sc.cont[:len(sc.cont)-1]
			rn.next = []int{body}
			return head
		}
		head := b.tau()
		sc.brk = append(sc.brk, succ)
		sc.cont = append(sc.cont, head)
		body := b.nested(sc, x.Body.List, head)
		sc.brk, sc.cont = sc.brk[:len(sc.brk)-1], sc.cont[:len(sc.cont)-1]
		b.nodes[head].next = []int{body, succ}
		return b.exprFlow(sc, x.X, false, head)
	case *ast.BranchStmt:
		if x.Label != nil {
			fatal("%s: labelled %s is outside the fragment", b.pos(x), x.Tok)
		}
		switch x.Tok {
		case token.BREAK:
			if len(sc.brk) == 0 {
				fatal("%s: break outside loop", b.pos(x))
			}
			return sc.brk[len(sc.brk)-1]
		case token.CONTINUE:
			return sc.cont[len(sc.cont)-1]
		}
		fatal("%s: %s is outside the fragment", b.pos(x), x.Tok)
	case *ast.SwitchStmt:
		var entries []int
		hasDefault := false
		sc.brk = append(sc.brk, succ)
		for _, c := range x.Body.List {
			cc := c.(*ast.CaseClause)
			if cc.List == nil {
				hasDefault = true
			}
			e := b.nested(sc, cc.Body, succ)
			for i := len(cc.List) - 1; i >= 0; i-- {
				e = b.exprFlow(sc, cc.List[i], false, e)
			}
			entries = append(entries, e)
		}
		sc.brk = sc.brk[:len(sc.brk)-1]
		if !hasDefault {
			entries = append(entries, succ)
		}
		e := b.tau(entries...)
		if x.Tag != nil {
			e = b.exprFlow(sc, x.Tag, false, e)
		}
		if x.Init != nil {
			e = b.stmt(sc, x.Init, e)
		}
		return e
	case *ast.TypeSwitchStmt:
		var entries []int
		sc.brk = append(sc.brk, succ)
		for _, c := range x.Body.List {
			entries = append(entries, b.nested(sc, c.(*ast.CaseClause).Body, succ))
		}
		sc.brk = sc.brk[:len(sc.brk)-1]
		entries = append(entries, succ)
		return b.tau(entries...)
	case *ast.SelectStmt:
		sel := &node{kind: "sel", path: b.pathAt(sc, x), fn: sc.fi.key}
		sc.brk = append(sc.brk, succ)
		for _, c := range x.Body.List {
			cc := c.(*ast.CommClause)
			if cc.Comm == nil {
				fatal("%s: select with default is outside the fragment", b.pos(cc))
			}
			var rx ast.Expr
			switch cm := cc.Comm.(type) {
			case *ast.ExprStmt:
				rx = cm.X
			case *ast.AssignStmt:
				if len(cm.Rhs) == 1 {
					rx = cm.Rhs[0]
				}
			}
			u, ok := rx.(*ast.UnaryExpr)
			if !ok || u.Op != token.ARROW {
				fatal("%s: select case is not a receive", b.pos(cc))
			}
			id := b.chanIdent(sc, u.X)
			if id == "" {
				fatal("%s: select on an unresolved channel", b.pos(cc))
			}
			b.bindLocals(sc, cc.Comm)
			alt := b.chanNode(sc, cc, "recv", id, u.X)
			alt.path = sel.path // a goroutine blocked in select is reported at the select statement
			alt.next = []int{b.nested(sc, cc.Body, succ)}
			sel.alts = append(sel.alts, alt)
		}
		sc.brk = sc.brk[:len(sc.brk)-1]
		return b.add(sel)
	case *ast.GoStmt:
		fatal("%s: go statement inside a visited function is outside the fragment", b.pos(x))
	case *ast.DeferStmt:
		fatal("%s: defer inside a nested block", b.pos(x))
	case *ast.LabeledStmt:
		fatal("%s: labelled statement is outside the fragment", b.pos(x))
	case *ast.EmptyStmt:
		return succ
	}
	fatal("%s: unsupported statement %T", b.pos(s), s)
	return succ
}

// nested: a nested block (no defers of its own).
func (b *builder) nested(sc *scope, stmts []ast.Stmt, succ int) int {
	b.prebind(sc, stmts)
	for i := len(stmts) - 1; i >= 0; i-- {
		if _, ok := stmts[i].(*ast.DeferStmt); ok {
			fatal("%s: defer inside a nested block", b.pos(stmts[i]))
		}
		succ = b.stmt(sc, stmts[i], succ)
	}
	return succ
}

func (b *builder) src(n ast.Node) string {
	if n == nil {
		return ""
	}
	ps, pe := b.p.fset.Position(n.Pos()), b.p.fset.Position(n.End())
	data, err := os.ReadFile(ps.Filename)
	if err != nil || pe.Offset > len(data) {
		return ""
	}
	return string(data[ps.Offset:pe.Offset])
}

// ------------------------------------------------------------------ compression

// Output node of a process.
type ONode struct {
	PC    int       `json:"pc"`
	Kind  string    `json:"kind"` // op | branch | sel | halt
	Act   string    `json:"act,omitempty"`
	Obj   string    `json:"obj,omitempty"`
	Who   string    `json:"who,omitempty"`
	Accs  []accItem `json:"accs,omitempty"`
	Next  []int     `json:"next,omitempty"`
	Label int       `json:"label,omitempty"`
	Then  []int     `json:"then,omitempty"`
	Else  []int     `json:"else,omitempty"`
	Alts  []OAlt    `json:"alts,omitempty"`
	Path  string    `json:"path,omitempty"`
	Paths []string  `json:"paths,omitempty"` // further call paths mapped to this node (deduplicated reader alternatives)
	Fn    string    `json:"fn,omitempty"`
}

type OAlt struct {
	Act  string `json:"act"`
	Obj  string `json:"obj"`
	Who  string `json:"who,omitempty"`
	Next []int  `json:"next"`
}

type OProc struct {
	Name  string   `json:"name"`
	Roots []string `json:"roots"`
	Nodes []ONode  `json:"nodes"`
}

type Output struct {
	Locks  []string       `json:"locks"`
	Leaf   []string       `json:"leaf_locks"`
	GChans []string       `json:"gchans"`
	GCaps  []int          `json:"gcaps"`
	MChans []string       `json:"mchans"`
	MCaps  []int          `json:"mcaps"`
	Fields []string       `json:"fields"`
	Labels map[string]int `json:"labels"`
	Procs  []OProc        `json:"procs"`
}

func isLeafOp(n *node) bool {
	if n.kind != "op" {
		return false
	}
	switch n.act {
	case "lock", "unlock", "rlock", "runlock":
		return isTracked(leafLocks, n.obj)
	}
	return false
}

func isBoundary(n *node) bool {
	return n.kind == "branch" || n.kind == "sel" || n.kind == "halt" || (n.kind == "op" && n.act != "acc" && !isLeafOp(n))
}

// region: from raw node `e`, the accesses (each with the leaf locks held at that point), the
// positions of the leaf-lock operations inside, and the boundary nodes reachable through tau / acc /
// leaf-lock nodes.  Checks the leaf discipline on the way.
func region(raw []*node, e int) ([]accItem, []string, []int) {
	type key struct {
		n    int
		held string
	}
	seen := map[key]bool{}
	var accs []accItem
	var exits []int
	var leafPaths []string
	exitSeen := map[int]bool{}
	accSeen := map[string]bool{}
	pathSeen := map[string]bool{}
	var walk func(int, []heldLock)
	walk = func(i int, held []heldLock) {
		k := key{i, heldKey(held)}
		if seen[k] {
			return
		}
		seen[k] = true
		n := raw[i]
		if isBoundary(n) {
			if len(held) > 0 {
				fatal("%s (%s): reached while holding leaf lock(s) %s: the lock is not a leaf lock", n.path, n.kind+" "+n.act+" "+n.obj, heldKey(held))
			}
			if !exitSeen[i] {
				exitSeen[i] = true
				exits = append(exits, i)
			}
			return
		}
		if isLeafOp(n) {
			if !pathSeen[n.path] {
				pathSeen[n.path] = true
				leafPaths = append(leafPaths, n.path)
			}
			var nh []heldLock
			switch n.act {
			case "lock", "rlock":
				for _, h := range held {
					if h.Lock == n.obj {
						fatal("%s: %s of leaf lock %s while already holding it", n.path, n.act, n.obj)
					}
				}
				nh = append(append(nh, held...), heldLock{n.obj, n.act == "lock"})
			default:
				found := false
				for _, h := range held {
					if h.Lock == n.obj && h.Write == (n.act == "unlock") && !found {
						found = true
						continue
					}
					nh = append(nh, h)
				}
				if !found {
					fatal("%s: %s of leaf lock %s which is not held (in that mode) on this path", n.path, n.act, n.obj)
				}
			}
			for _, s := range n.next {
				walk(s, nh)
			}
			return
		}
		for _, a := range n.accs {
			a.Held = append([]heldLock{}, held...)
			sort.Slice(a.Held, func(x, y int) bool { return a.Held[x].Lock < a.Held[y].Lock })
			k := fmt.Sprintf("%s|%v|%s|%s", a.Field, a.Write, a.Path, heldKey(a.Held))
			if !accSeen[k] {
				accSeen[k] = true
				accs = append(accs, a)
			}
		}
		for _, s := range n.next {
			walk(s, held)
		}
	}
	walk(e, nil)
	sort.Ints(exits)
	sort.Strings(leafPaths)
	sort.Slice(accs, func(i, j int) bool {
		if accs[i].Field != accs[j].Field {
			return accs[i].Field < accs[j].Field
		}
		if accs[i].Write != accs[j].Write {
			return !accs[i].Write
		}
		if accs[i].Path != accs[j].Path {
			return accs[i].Path < accs[j].Path
		}
		return heldKey(accs[i].Held) < heldKey(accs[j].Held)
	})
	return accs, leafPaths, exits
}

// compress turns the raw graph reachable from entry into dense output nodes; pc 0 is the entry.
func compress(raw []*node, entry int) []ONode {
	var out []ONode
	boundaryPC := map[int]int{}  // raw boundary node -> pc
	regionPC := map[string]int{} // region signature -> pc of its acc node
	var pending []func()
	var succOf func(raws []int) []int
	var pcOfBoundary func(i int) int
	pcOfBoundary = func(i int) int {
		if pc, ok := boundaryPC[i]; ok {
			return pc
		}
		n := raw[i]
		pc := len(out)
		boundaryPC[i] = pc
		out = append(out, ONode{PC: pc})
		pending = append(pending, func() {
			o := ONode{PC: pc, Path: n.path, Fn: n.fn}
			switch n.kind {
			case "halt":
				o.Kind = "halt"
			case "op":
				o.Kind, o.Act, o.Obj, o.Who = "op", n.act, n.obj, n.who
				o.Next = succOf(n.next)
			case "branch":
				o.Kind, o.Label = "branch", n.label
				o.Then, o.Else = succOf(n.thenN), succOf(n.elseN)
			case "sel":
				o.Kind = "sel"
				for _, a := range n.alts {
					o.Alts = append(o.Alts, OAlt{Act: a.act, Obj: a.obj, Who: a.who, Next: succOf(a.next)})
				}
			}
			out[pc] = o
		})
		return pc
	}
	// successors: each raw successor is the entry of a region
	succOf = func(raws []int) []int {
		set := map[int]bool{}
		for _, r := range raws {
			accs, leafPaths, exits := region(raw, r)
			if len(accs) == 0 {
				for _, x := range exits {
					set[pcOfBoundary(x)] = true
				}
				continue
			}
			sig := fmt.Sprint(accs, exits)
			pc, ok := regionPC[sig]
			if !ok {
				pc = len(out)
				regionPC[sig] = pc
				out = append(out, ONode{PC: pc})
				accsC, exitsC, leafC := accs, exits, leafPaths
				pending = append(pending, func() {
					var nx []int
					for _, x := range exitsC {
						nx = append(nx, pcOfBoundary(x))
					}
					sort.Ints(nx)
					out[pc] = ONode{PC: pc, Kind: "op", Act: "acc", Accs: accsC, Next: nx, Path: accsC[0].Path, Paths: leafC}
				})
			}
			set[pc] = true
		}
		var r []int
		for k := range set {
			r = append(r, k)
		}
		sort.Ints(r)
		return r
	}
	// entry node: a tau-like op so that pc 0 exists even when the entry is inside a region
	out = append(out, ONode{PC: 0})
	first := succOf([]int{entry})
	for len(pending) > 0 {
		f := pending[0]
		pending = pending[1:]
		f()
	}
	out[0] = ONode{PC: 0, Kind: "op", Act: "tau", Next: first}
	if len(first) == 1 && first[0] != 0 {
		// the entry is a single node: let it be pc 0 itself (one position less per process)
		f := first[0]
		out[0] = out[f]
		out[0].PC = 0
		rl := func(xs []int) []int {
			var r []int
			for _, x := range xs {
				if x == f {
					x = 0
				}
				r = append(r, x)
			}
			return r
		}
		for i := range out {
			out[i].Next, out[i].Then, out[i].Else = rl(out[i].Next), rl(out[i].Then), rl(out[i].Else)
			for k := range out[i].Alts {
				out[i].Alts[k].Next = rl(out[i].Alts[k].Next)
			}
		}
		out = renumber(out)
	}
	return out
}

func uniq(xs []string) []string {
	var r []string
	for i, x := range xs {
		if i == 0 || x != xs[i-1] {
			r = append(r, x)
		}
	}
	return r
}

// minimise merges nodes that behave identically (same operation, same successors), repeatedly:
// the per-return copies of deferred unlocks collapse into one node, and so do reader entry points
// with the same shape.  Source paths of merged nodes are kept on the surviving node (Paths, Accs).
func minimise(nodes []ONode) []ONode {
	for {
		sig := map[string]int{}
		ren := map[int]int{}
		changed := false
		for i, n := range nodes {
			if i == 0 {
				continue
			}
			var accs []string
			for _, a := range n.Accs {
				accs = append(accs, fmt.Sprintf("%s/%v/%s", a.Field, a.Write, heldKey(a.Held)))
			}
			sort.Strings(accs)
			accs = uniq(accs)
			k := fmt.Sprint(n.Kind, "|", n.Act, "|", n.Obj, "|", n.Who, "|", accs, n.Next, n.Label, n.Then, n.Else)
			for _, a := range n.Alts {
				k += fmt.Sprint(a.Act, a.Obj, a.Who, a.Next)
			}
			if j, ok := sig[k]; ok {
				ren[i] = j
				changed = true
				rep := &nodes[j]
				for _, p := range append([]string{n.Path}, n.Paths...) {
					if p != "" && p != rep.Path && !isTracked(rep.Paths, p) {
						rep.Paths = append(rep.Paths, p)
					}
				}
				for _, a := range n.Accs {
					dup := false
					for _, b := range rep.Accs {
						if a.Field == b.Field && a.Write == b.Write && a.Path == b.Path && heldKey(a.Held) == heldKey(b.Held) {
							dup = true
						}
					}
					if !dup {
						rep.Accs = append(rep.Accs, a)
					}
				}
			} else {
				sig[k] = i
			}
		}
		if !changed {
			return nodes
		}
		rl := func(xs []int) []int {
			set := map[int]bool{}
			var r []int
			for _, x := range xs {
				if y, ok := ren[x]; ok {
					x = y
				}
				if !set[x] {
					set[x] = true
					r = append(r, x)
				}
			}
			sort.Ints(r)
			return r
		}
		for i := range nodes {
			nodes[i].Next, nodes[i].Then, nodes[i].Else = rl(nodes[i].Next), rl(nodes[i].Then), rl(nodes[i].Else)
			for k := range nodes[i].Alts {
				nodes[i].Alts[k].Next = rl(nodes[i].Alts[k].Next)
			}
		}
		nodes = renumber(nodes)
	}
}

// renumber drops unreachable nodes and makes pcs dense (order preserved).
func renumber(nodes []ONode) []ONode {
	reach := map[int]bool{}
	var order []int
	var walk func(int)
	walk = func(i int) {
		if reach[i] {
			return
		}
		reach[i] = true
		order = append(order, i)
		for _, s := range allSucc(nodes[i]) {
			walk(s)
		}
	}
	walk(0)
	sort.Ints(order)
	ren := map[int]int{}
	for k, i := range order {
		ren[i] = k
	}
	rl := func(xs []int) []int {
		var r []int
		for _, x := range xs {
			r = append(r, ren[x])
		}
		sort.Ints(r)
		return r
	}
	var out []ONode
	for _, i := range order {
		n := nodes[i]
		n.PC = ren[i]
		n.Next, n.Then, n.Else = rl(n.Next), rl(n.Then), rl(n.Else)
		alts := make([]OAlt, len(n.Alts))
		copy(alts, n.Alts)
		for k := range alts {
			alts[k].Next = rl(alts[k].Next)
		}
		n.Alts = alts
		out = append(out, n)
	}
	return out
}

func allSucc(n ONode) []int {
	var s []int
	s = append(s, n.Next...)
	s = append(s, n.Then...)
	s = append(s, n.Else...)
	for _, a := range n.Alts {
		s = append(s, a.Next...)
	}
	return s
}

// ------------------------------------------------------------------ main

func build(repo string) *Output {
	p := load(repo)
	out := &Output{Leaf: leafLocks, Fields: sharedFields, Labels: map[string]int{}}
	for _, l := range trackedLocks {
		if !isTracked(leafLocks, l) {
			out.Locks = append(out.Locks, l)
		}
	}
	for _, r := range labelled {
		out.Labels[r.name] = r.label
	}
	// channels: global = field of a non-message struct; per-message = field of a message struct
	var ids []string
	for id := range p.elem {
		ids = append(ids, id)
	}
	sort.Strings(ids)
	used := map[string]bool{}
	var procs []OProc
	for _, pd := range processes {
		b := &builder{p: p}
		halt := b.add(&node{kind: "halt"})
		var entries []int
		for _, root := range pd.roots {
			fi := p.funcs[root]
			if fi == nil {
				fatal("root function %s not found in %v", root, pkgDirs)
			}
			sc := b.newScope(fi, nil, nil)
			entries = append(entries, b.funcBody(sc, halt))
		}
		var entry int
		if len(entries) == 1 {
			entry = entries[0]
		} else {
			// one-shot choice among the roots: each alternative must stay separate for deduplication,
			// so give every alternative its own boundary-free tau
			entry = b.tau(entries...)
		}
		nodes := minimise(compress(b.nodes, entry))
		for _, n := range nodes {
			if n.Obj != "" && (strings.HasPrefix(n.Act, "send") || strings.HasPrefix(n.Act, "recv")) {
				used[n.Obj] = true
			}
			for _, a := range n.Alts {
				used[a.Obj] = true
			}
		}
		procs = append(procs, OProc{Name: pd.name, Roots: pd.roots, Nodes: nodes})
	}
	for _, id := range ids {
		if !used[id] {
			continue
		}
		owner := id[:strings.Index(id, ".")]
		c, ok := p.caps[id]
		if !ok {
			fatal("no make(chan) found for channel %s", id)
		}
		if p.msgType[owner] {
			out.MChans = append(out.MChans, id)
			out.MCaps = append(out.MCaps, c)
		} else {
			if c == 0 {
				fatal("global channel %s is unbuffered: outside the fragment", id)
			}
			out.GChans = append(out.GChans, id)
			out.GCaps = append(out.GCaps, c)
		}
	}
	out.Procs = procs
	return out
}

func indexOf(xs []string, x string) int {
	for i, y := range xs {
		if y == x {
			return i
		}
	}
	fatal("identity %s not declared", x)
	return -1
}

func coqList(xs []int) string {
	var r []string
	for _, x := range xs {
		r = append(r, strconv.Itoa(x))
	}
	return "[" + strings.Join(r, "; ") + "]%N"
}

func (o *Output) coqAct(act, obj, who string, accs []accItem) string {
	w := "Self"
	if who == "reg" {
		w = "Reg"
	}
	switch act {
	case "lock":
		return fmt.Sprintf("(ALock %d)", indexOf(o.Locks, obj))
	case "unlock":
		return fmt.Sprintf("(AUnlock %d)", indexOf(o.Locks, obj))
	case "rlock":
		return fmt.Sprintf("(ARLock %d)", indexOf(o.Locks, obj))
	case "runlock":
		return fmt.Sprintf("(ARUnlock %d)", indexOf(o.Locks, obj))
	case "send":
		return fmt.Sprintf("(ASend %d)", indexOf(o.GChans, obj))
	case "recv":
		return fmt.Sprintf("(ARecv %d)", indexOf(o.GChans, obj))
	case "sendm":
		return fmt.Sprintf("(ASendM %d %s)", indexOf(o.MChans, obj), w)
	case "recvm":
		return fmt.Sprintf("(ARecvM %d %s)", indexOf(o.MChans, obj), w)
	case "tau":
		return "ATau"
	case "acc":
		set := map[string]bool{}
		var items []string
		for _, a := range accs {
			var hs []string
			for _, h := range a.Held {
				hs = append(hs, fmt.Sprintf("(%d%%N, %v)", indexOf(o.Leaf, h.Lock), h.Write))
			}
			s := fmt.Sprintf("(%d%%N, %v, [%s])", indexOf(o.Fields, a.Field), a.Write, strings.Join(hs, "; "))
			if !set[s] {
				set[s] = true
				items = append(items, s)
			}
		}
		sort.Strings(items)
		return "(AAcc [" + strings.Join(items, "; ") + "])"
	}
	fatal("unknown action %q", act)
	return ""
}

func (o *Output) coq() string {
	var sb strings.Builder
	sb.WriteString("(* GENERATED by tools/syncskel from /repo's working tree - do not edit. *)\n")
	sb.WriteString("From Coq Require Import NArith List.\nFrom C37 Require Import Lts.\nImport ListNotations.\nOpen Scope N_scope.\n\n")
	for i, l := range o.Locks {
		fmt.Fprintf(&sb, "(* lock %d = %s *)\n", i, l)
	}
	for i, l := range o.Leaf {
		fmt.Fprintf(&sb, "(* leaf lock %d = %s *)\n", i, l)
	}
	for i, c := range o.GChans {
		fmt.Fprintf(&sb, "(* global channel %d = %s, capacity %d *)\n", i, c, o.GCaps[i])
	}
	for i, c := range o.MChans {
		fmt.Fprintf(&sb, "(* per-message channel class %d = %s, capacity %d *)\n", i, c, o.MCaps[i])
	}
	for i, f := range o.Fields {
		fmt.Fprintf(&sb, "(* shared field %d = %s *)\n", i, f)
	}
	sb.WriteString("\n")
	ident := func(s string) string { return strings.ReplaceAll(s, ".", "_") }
	for i, l := range o.Locks {
		fmt.Fprintf(&sb, "Definition lock_%s : N := %d.\n", ident(l), i)
	}
	for i, c := range o.GChans {
		fmt.Fprintf(&sb, "Definition gchan_%s : N := %d.\n", ident(c), i)
	}
	for i, c := range o.MChans {
		fmt.Fprintf(&sb, "Definition mchan_%s : N := %d.\n", ident(c), i)
	}
	for i, f := range o.Fields {
		fmt.Fprintf(&sb, "Definition field_%s : N := %d.\n", ident(f), i)
	}
	fmt.Fprintf(&sb, "Definition n_locks : N := %d.\n", len(o.Locks))
	fmt.Fprintf(&sb, "Definition gchan_caps : list N := %s.\n", coqList(o.GCaps))
	fmt.Fprintf(&sb, "Definition mchan_caps : list N := %s.\n", coqList(o.MCaps))
	var lbl []string
	for n, l := range o.Labels {
		lbl = append(lbl, fmt.Sprintf("Definition label_%s : N := %d.", strings.ReplaceAll(n, "-", "_"), l))
	}
	sort.Strings(lbl)
	sb.WriteString(strings.Join(lbl, "\n") + "\n\n")
	for _, p := range o.Procs {
		fmt.Fprintf(&sb, "(* process %s: %s *)\n", p.Name, strings.Join(p.Roots, ", "))
		fmt.Fprintf(&sb, "Definition proc_%s : list instr :=\n [", p.Name)
		for i, n := range p.Nodes {
			if i > 0 {
				sb.WriteString(";\n  ")
			}
			fmt.Fprintf(&sb, "(* %d %s *) ", n.PC, n.Path)
			switch n.Kind {
			case "halt":
				sb.WriteString("IHalt")
			case "op":
				fmt.Fprintf(&sb, "IOp %s %s", o.coqAct(n.Act, n.Obj, n.Who, n.Accs), coqList(n.Next))
			case "branch":
				fmt.Fprintf(&sb, "IBranch %d %s %s", n.Label, coqList(n.Then), coqList(n.Else))
			case "sel":
				var alts []string
				for _, a := range n.Alts {
					alts = append(alts, fmt.Sprintf("(%s, %s)", o.coqAct(a.Act, a.Obj, a.Who, nil), coqList(a.Next)))
				}
				fmt.Fprintf(&sb, "ISel [%s]", strings.Join(alts, "; "))
			}
		}
		sb.WriteString("].\n\n")
	}
	return sb.String()
}

func main() {
	args := os.Args[1:]
	if len(args) == 2 && args[0] == "-json" {
		o := build(args[1])
		js, _ := json.MarshalIndent(o, "", " ")
		fmt.Println(string(js))
		return
	}
	if len(args) != 2 {
		fmt.Fprintln(os.Stderr, "usage: syncskel <repo> <out.v> | syncskel -json <repo>")
		os.Exit(2)
	}
	o := build(args[0])
	if err := os.WriteFile(args[1], []byte(o.coq()), 0644); err != nil {
		fatal("%v", err)
	}
}
