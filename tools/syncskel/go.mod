module syncskel

go 1.16
