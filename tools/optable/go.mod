module optable

go 1.16
