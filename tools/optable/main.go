// optable: translator T3. Reads protocol/vm/ops.go from /repo's working tree and emits the
// opcode table as Gallina data (coq/gen/OpTable.v):
//
//   op_consts : the `OP_x Op = <int>` constants (name, value)
//   op_table  : the entries of the `ops = [256]opInfo{...}` literal plus the `ops[OP_x] = opInfo{...}`
//               assignments of init(): (code, (name, handler))
//   data_lo/data_hi, small_lo/small_count : the bounds of the two init() loops that fill the
//               DATA_n and small-integer opcodes
//
// Fragment (anything else is a fatal error, exit 2): constants are integer literals of type Op;
// table entries are `KEY: {OP, "NAME", fn}` with KEY == OP identifiers; init() contains exactly
// the loops `for i := <lo>; i <= <hi>; i++ { ops[i] = opInfo{Op(i), fmt.Sprintf("DATA_%d", i), h} }`,
// `for i := uint8(<lo>); i <= <hi>; i++ { op := uint8(OP_1) + i; ops[op] = opInfo{Op(op),
// fmt.Sprintf("%d", i+1), h} }`, assignments `ops[OP_x] = opInfo{OP_x, "NAME", fn}`, and the final
// loop that names every remaining byte NOPx%02x with handler opNop and marks it an expansion.
package main

import (
	"fmt"
	"go/ast"
	"go/parser"
	"go/printer"
	"go/token"
	"os"
	"strconv"
	"strings"
)

var fset = token.NewFileSet()

func fatal(n ast.Node, f string, a ...interface{}) {
	pos := ""
	if n != nil {
		pos = fset.Position(n.Pos()).String() + ": "
	}
	fmt.Fprintf(os.Stderr, "optable: %soutside fragment: %s\n", pos, fmt.Sprintf(f, a...))
	os.Exit(2)
}

func src(n ast.Node) string {
	var sb strings.Builder
	printer.Fprint(&sb, fset, n)
	return strings.Join(strings.Fields(sb.String()), " ")
}

func intLit(e ast.Expr) int64 {
	if c, ok := e.(*ast.CallExpr); ok && len(c.Args) == 1 { // uint8(0)
		e = c.Args[0]
	}
	b, ok := e.(*ast.BasicLit)
	if !ok || b.Kind != token.INT {
		fatal(e, "integer literal expected, got %s", src(e))
	}
	v, err := strconv.ParseInt(b.Value, 0, 64)
	if err != nil {
		fatal(e, "bad integer %s", b.Value)
	}
	return v
}

type entry struct {
	code          int64
	name, handler string
}

func main() {
	if len(os.Args) != 3 {
		fmt.Fprintln(os.Stderr, "usage: optable <repo> <out.v>")
		os.Exit(2)
	}
	f, err := parser.ParseFile(fset, os.Args[1]+"/protocol/vm/ops.go", nil, 0)
	if err != nil {
		fmt.Fprintln(os.Stderr, "optable:", err)
		os.Exit(2)
	}
	consts := map[string]int64{}
	var constOrder []string
	var entries []entry
	var dataLo, dataHi, smallLo, smallHi int64 = -1, -1, -1, -1
	dataHandler, smallHandler, smallBase := "", "", ""
	sawNop := false
	info := func(key ast.Expr, lit *ast.CompositeLit) entry {
		if len(lit.Elts) != 3 {
			fatal(lit, "opInfo literal with %d fields", len(lit.Elts))
		}
		k, ok1 := key.(*ast.Ident)
		o, ok2 := lit.Elts[0].(*ast.Ident)
		nm, ok3 := lit.Elts[1].(*ast.BasicLit)
		h, ok4 := lit.Elts[2].(*ast.Ident)
		if !ok1 || !ok2 || !ok3 || !ok4 || nm.Kind != token.STRING {
			fatal(lit, "entry shape %s", src(lit))
		}
		if k.Name != o.Name {
			fatal(lit, "key %s differs from op field %s", k.Name, o.Name)
		}
		v, ok := consts[k.Name]
		if !ok {
			fatal(lit, "unknown opcode constant %s", k.Name)
		}
		s, _ := strconv.Unquote(nm.Value)
		return entry{v, s, h.Name}
	}
	for _, d := range f.Decls {
		switch x := d.(type) {
		case *ast.GenDecl:
			for _, sp := range x.Specs {
				vs, ok := sp.(*ast.ValueSpec)
				if !ok {
					continue
				}
				if x.Tok == token.CONST {
					if id, ok := vs.Type.(*ast.Ident); !ok || id.Name != "Op" {
						continue
					}
					for i, n := range vs.Names {
						if i >= len(vs.Values) {
							fatal(vs, "constant %s without a value", n.Name)
						}
						consts[n.Name] = intLit(vs.Values[i])
						constOrder = append(constOrder, n.Name)
					}
				}
				if x.Tok == token.VAR && len(vs.Names) == 1 && vs.Names[0].Name == "ops" {
					lit, ok := vs.Values[0].(*ast.CompositeLit)
					if !ok {
						fatal(vs, "ops is not a composite literal")
					}
					for _, e := range lit.Elts {
						kv, ok := e.(*ast.KeyValueExpr)
						if !ok {
							fatal(e, "ops element without key")
						}
						il, ok := kv.Value.(*ast.CompositeLit)
						if !ok {
							fatal(e, "ops element value")
						}
						entries = append(entries, info(kv.Key, il))
					}
				}
			}
		case *ast.FuncDecl:
			if x.Name.Name != "init" || x.Recv != nil {
				continue
			}
			for _, st := range x.Body.List {
				switch s := st.(type) {
				case *ast.ForStmt:
					t := src(s)
					as, ok := s.Init.(*ast.AssignStmt)
					cond, ok2 := s.Cond.(*ast.BinaryExpr)
					if !ok || !ok2 || cond.Op != token.LEQ || len(as.Rhs) != 1 {
						fatal(s, "loop header %s", t)
					}
					lo, hi := intLit(as.Rhs[0]), intLit(cond.Y)
					switch {
					case strings.Contains(t, `fmt.Sprintf("DATA_%d", i)`):
						want := fmt.Sprintf(`{ ops[i] = opInfo{Op(i), fmt.Sprintf("DATA_%%d", i), `)
						b := src(s.Body)
						if !strings.HasPrefix(b, want) {
							fatal(s, "DATA loop body %s", b)
						}
						dataLo, dataHi = lo, hi
						dataHandler = strings.TrimSuffix(strings.TrimPrefix(b, want), "} }")
					case strings.Contains(t, `fmt.Sprintf("%d", i+1)`):
						b := src(s.Body)
						pre := "{ op := uint8("
						mid := `) + i ops[op] = opInfo{Op(op), fmt.Sprintf("%d", i+1), `
						if !strings.HasPrefix(b, pre) || !strings.Contains(b, mid) {
							fatal(s, "small-integer loop body %s", b)
						}
						smallBase = b[len(pre):strings.Index(b, mid)]
						smallHandler = strings.TrimSuffix(b[strings.Index(b, mid)+len(mid):], "} }")
						smallLo, smallHi = lo, hi
					case strings.Contains(t, `fmt.Sprintf("NOPx%02x", i)`):
						b := src(s.Body)
						want := `{ if ops[i].name == "" { ops[i] = opInfo{Op(i), fmt.Sprintf("NOPx%02x", i), opNop} isExpansion[i] = true } }`
						if b != want || lo != 0 || hi != 255 {
							fatal(s, "NOPx loop %s", t)
						}
						sawNop = true
					default:
						fatal(s, "unrecognised loop %s", t)
					}
				case *ast.AssignStmt:
					if len(s.Lhs) == 1 && len(s.Rhs) == 1 {
						if ix, ok := s.Lhs[0].(*ast.IndexExpr); ok {
							if id, ok := ix.X.(*ast.Ident); ok && id.Name == "ops" {
								lit, ok := s.Rhs[0].(*ast.CompositeLit)
								if !ok {
									fatal(s, "ops assignment %s", src(s))
								}
								if sawNop {
									fatal(s, "ops assignment after the NOPx loop")
								}
								entries = append(entries, info(ix.Index, lit))
								continue
							}
						}
					}
					// other assignments (opsByName etc.) do not touch ops
					if strings.Contains(src(s.Lhs[0]), "ops[") {
						fatal(s, "assignment to ops %s", src(s))
					}
				case *ast.RangeStmt, *ast.ExprStmt:
					if strings.Contains(src(s), "ops[") && !strings.Contains(src(s), "opsByName") {
						fatal(s, "statement touching ops %s", src(s))
					}
				default:
					fatal(s, "statement %T in init", s)
				}
			}
		}
	}
	if dataLo < 0 || smallLo < 0 || !sawNop {
		fatal(nil, "init() loops not found (data %d small %d nop %v)", dataLo, smallLo, sawNop)
	}
	base, ok := consts[smallBase]
	if !ok {
		fatal(nil, "small-integer base %s", smallBase)
	}
	var sb strings.Builder
	sb.WriteString("(* GENERATED by tools/optable from protocol/vm/ops.go of /repo's working tree - do not edit. *)\n")
	sb.WriteString("From Coq Require Import NArith List String.\nImport ListNotations.\nOpen Scope N_scope.\nOpen Scope string_scope.\n\n")
	sb.WriteString("Definition op_consts : list (string * N) :=\n [")
	for i, n := range constOrder {
		if i > 0 {
			sb.WriteString(";\n  ")
		}
		fmt.Fprintf(&sb, "(\"%s\", %d)", n, consts[n])
	}
	sb.WriteString("].\n\n(* (code, (name, handler)) in source order: the ops literal, then the assignments of init() *)\n")
	sb.WriteString("Definition op_table : list (N * (string * string)) :=\n [")
	for i, e := range entries {
		if i > 0 {
			sb.WriteString(";\n  ")
		}
		fmt.Fprintf(&sb, "(%d, (\"%s\", \"%s\"))", e.code, e.name, e.handler)
	}
	sb.WriteString("].\n\n")
	fmt.Fprintf(&sb, "Definition data_lo : N := %d.\nDefinition data_hi : N := %d.\nDefinition data_handler : string := \"%s\".\n", dataLo, dataHi, dataHandler)
	fmt.Fprintf(&sb, "Definition small_base : N := %d.\nDefinition small_lo : N := %d.\nDefinition small_hi : N := %d.\nDefinition small_handler : string := \"%s\".\n", base, smallLo, smallHi, smallHandler)
	sb.WriteString("Definition nop_handler : string := \"opNop\".\n")
	if err := os.WriteFile(os.Args[2], []byte(sb.String()), 0644); err != nil {
		fmt.Fprintln(os.Stderr, "optable:", err)
		os.Exit(2)
	}
}
