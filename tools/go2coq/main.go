// go2coq: translator T1. Reads Go source from /repo's working tree and emits
// Gallina definitions with explicit fixed-width semantics (coq/lib/GoInt.v).
//
// Fragment: top-level functions whose parameters all have one integer type
// T in {int32,int64,uint32,uint64}, whose results are (T, bool), and whose
// bodies are sequences of `if <cond> { return <expr>, <boollit> }` followed
// by a final `return <expr>, <boollit>`.  Expressions: identifiers, integer
// literals, math.{Max,Min}{Int,Uint}{32,64}, parentheses, unary minus,
// + - * / % << >>, uint(x) conversions (shift counts), comparisons, && ||.
// && || and if are emitted as native matches so that evaluation is lazy
// (short-circuit) also under vm_compute's call-by-value.
// Anything else inside a function of that signature is a fatal error
// (exit 2), never a silent skip.  Functions with other signatures are listed
// in the output as skipped.
package main

import (
	"fmt"
	"go/ast"
	"go/parser"
	"go/token"
	"os"
	"sort"
	"strings"
)

var intTypes = map[string]string{"int32": "I32", "int64": "I64", "uint32": "U32", "uint64": "U64"}

var mathConsts = map[string]string{
	"MaxInt64":  "(2^63 - 1)",
	"MinInt64":  "(- 2^63)",
	"MaxInt32":  "(2^31 - 1)",
	"MinInt32":  "(- 2^31)",
	"MaxUint64": "(2^64 - 1)",
	"MaxUint32": "(2^32 - 1)",
}

type tr struct {
	fset *token.FileSet
	ty   string // Coq ity constructor
	vars map[string]bool
}

func (t *tr) fail(n ast.Node, msg string) {
	fmt.Fprintf(os.Stderr, "go2coq: %s: outside fragment: %s\n", t.fset.Position(n.Pos()), msg)
	os.Exit(2)
}

func (t *tr) expr(e ast.Expr) string {
	switch x := e.(type) {
	case *ast.ParenExpr:
		return t.expr(x.X)
	case *ast.Ident:
		if !t.vars[x.Name] {
			t.fail(e, "unknown identifier "+x.Name)
		}
		return "(Some " + x.Name + ")"
	case *ast.BasicLit:
		if x.Kind != token.INT {
			t.fail(e, "non-integer literal")
		}
		return "(Some " + x.Value + ")"
	case *ast.SelectorExpr:
		if id, ok := x.X.(*ast.Ident); ok && id.Name == "math" {
			if c, ok := mathConsts[x.Sel.Name]; ok {
				return "(Some " + c + ")"
			}
		}
		t.fail(e, "selector")
	case *ast.UnaryExpr:
		if x.Op == token.SUB {
			return fmt.Sprintf("(obind1 %s (gneg %s))", t.expr(x.X), t.ty)
		}
		t.fail(e, "unary "+x.Op.String())
	case *ast.CallExpr:
		if id, ok := x.Fun.(*ast.Ident); ok && id.Name == "uint" && len(x.Args) == 1 {
			return fmt.Sprintf("(obind1 %s gtouint)", t.expr(x.Args[0]))
		}
		t.fail(e, "call")
	case *ast.BinaryExpr:
		ops := map[token.Token]string{token.ADD: "gadd", token.SUB: "gsub", token.MUL: "gmul",
			token.QUO: "gdiv", token.REM: "gmod", token.SHL: "gshl", token.SHR: "gshr"}
		if f, ok := ops[x.Op]; ok {
			return fmt.Sprintf("(obind2 %s %s (%s %s))", t.expr(x.X), t.expr(x.Y), f, t.ty)
		}
		t.fail(e, "binary "+x.Op.String()+" in integer position")
	}
	t.fail(e, fmt.Sprintf("expression %T", e))
	return ""
}

func (t *tr) cond(e ast.Expr) string {
	switch x := e.(type) {
	case *ast.ParenExpr:
		return t.cond(x.X)
	case *ast.BinaryExpr:
		cmps := map[token.Token]string{token.GTR: "Z.gtb", token.LSS: "Z.ltb", token.GEQ: "Z.geb",
			token.LEQ: "Z.leb", token.EQL: "Z.eqb", token.NEQ: "(fun a b => negb (Z.eqb a b))"}
		if c, ok := cmps[x.Op]; ok {
			return fmt.Sprintf("(ocmp %s %s %s)", c, t.expr(x.X), t.expr(x.Y))
		}
		if x.Op == token.LOR {
			return fmt.Sprintf("(match %s with Some true => Some true | Some false => %s | None => None end)", t.cond(x.X), t.cond(x.Y))
		}
		if x.Op == token.LAND {
			return fmt.Sprintf("(match %s with Some false => Some false | Some true => %s | None => None end)", t.cond(x.X), t.cond(x.Y))
		}
	}
	t.fail(e, fmt.Sprintf("condition %T", e))
	return ""
}

func (t *tr) ret(r *ast.ReturnStmt) string {
	if len(r.Results) != 2 {
		t.fail(r, "return arity")
	}
	b, ok := r.Results[1].(*ast.Ident)
	if !ok || (b.Name != "true" && b.Name != "false") {
		t.fail(r, "second result must be a boolean literal")
	}
	return fmt.Sprintf("(oret %s %s)", t.expr(r.Results[0]), b.Name)
}

func (t *tr) stmts(ss []ast.Stmt) string {
	if len(ss) == 0 {
		fmt.Fprintln(os.Stderr, "go2coq: function falls off the end")
		os.Exit(2)
	}
	switch s := ss[0].(type) {
	case *ast.ReturnStmt:
		if len(ss) != 1 {
			t.fail(s, "code after return")
		}
		return t.ret(s)
	case *ast.IfStmt:
		if s.Init != nil || s.Else != nil || len(s.Body.List) != 1 {
			t.fail(s, "if with init/else/multi-statement body")
		}
		r, ok := s.Body.List[0].(*ast.ReturnStmt)
		if !ok {
			t.fail(s, "if body must be a return")
		}
		return fmt.Sprintf("(match %s with\n      | Some true => %s\n      | Some false => %s\n      | None => None end)", t.cond(s.Cond), t.ret(r), t.stmts(ss[1:]))
	}
	t.fail(ss[0], fmt.Sprintf("statement %T", ss[0]))
	return ""
}

func main() {
	if len(os.Args) != 3 {
		fmt.Fprintln(os.Stderr, "usage: go2coq <checked.go> <out.v>")
		os.Exit(2)
	}
	fset := token.NewFileSet()
	f, err := parser.ParseFile(fset, os.Args[1], nil, 0)
	if err != nil {
		fmt.Fprintln(os.Stderr, "go2coq:", err)
		os.Exit(2)
	}
	var out strings.Builder
	out.WriteString("(* GENERATED by tools/go2coq from " + os.Args[1] + " -- do not edit *)\n")
	out.WriteString("From Coq Require Import ZArith List String.\nFrom Verif Require Import GoInt.\nOpen Scope Z_scope.\n\n")
	var names, skipped []string
	sigs := map[string]string{}
	for _, d := range f.Decls {
		fd, ok := d.(*ast.FuncDecl)
		if !ok || fd.Recv != nil {
			continue
		}
		ty := ""
		var params []string
		good := fd.Type.Results != nil
		for _, p := range fd.Type.Params.List {
			id, ok := p.Type.(*ast.Ident)
			if !ok || intTypes[id.Name] == "" || (ty != "" && intTypes[id.Name] != ty) {
				good = false
				break
			}
			ty = intTypes[id.Name]
			for _, n := range p.Names {
				params = append(params, n.Name)
			}
		}
		if good {
			var rts []string
			for _, r := range fd.Type.Results.List {
				id, ok := r.Type.(*ast.Ident)
				k := len(r.Names)
				if k == 0 {
					k = 1
				}
				for i := 0; i < k; i++ {
					if ok {
						rts = append(rts, id.Name)
					} else {
						rts = append(rts, "?")
					}
				}
			}
			if len(rts) != 2 || intTypes[rts[0]] != ty || rts[1] != "bool" {
				good = false
			}
		}
		if !good || len(params) == 0 {
			skipped = append(skipped, fd.Name.Name)
			continue
		}
		t := &tr{fset: fset, ty: ty, vars: map[string]bool{}}
		for _, p := range params {
			t.vars[p] = true
		}
		body := t.stmts(fd.Body.List)
		fmt.Fprintf(&out, "Definition %s (%s : Z) : cres :=\n  %s.\n\n", fd.Name.Name, strings.Join(params, " "), body)
		names = append(names, fd.Name.Name)
		sigs[fd.Name.Name] = fmt.Sprintf("%s/%d", ty, len(params))
	}
	sort.Strings(names)
	out.WriteString("Open Scope string_scope.\nDefinition checked_functions : list string :=\n  (")
	for _, n := range names {
		fmt.Fprintf(&out, "\"%s:%s\" :: ", n, sigs[n])
	}
	out.WriteString("nil).\n")
	out.WriteString("Definition skipped_functions : list string :=\n  (")
	for _, n := range skipped {
		fmt.Fprintf(&out, "\"%s\" :: ", n)
	}
	out.WriteString("nil).\n")
	if err := os.WriteFile(os.Args[2], []byte(out.String()), 0644); err != nil {
		fmt.Fprintln(os.Stderr, "go2coq:", err)
		os.Exit(2)
	}
}
